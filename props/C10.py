"""C10 — rfsm-expression evaluation follows the documented language semantics.

Decided (structural necessary conditions, all as *tables extracted from the resolved HIR* by
partial evaluation, see peval.py): operator priority classes and associativity of
`ExpressionParser::stack_to_expression`, operand positions of every fold, the operator -> operation
dispatch, the lexer's character -> operator table, the numeric tower of the arithmetic operations,
field-by-field equivalence of the 13 `get_copy` implementations, the compile cache protocol and
the provenance of cache keys.
Not decided: the value of an arbitrary expression; whitespace independence (`10-3` vs `10 - 3`).
"""
from common import *
import hirq
from peval import PE, UNK, NOHOOK, Enum, known, plit_value

PARSER = "expression_engine::parser::ExpressionParser::"
OPV = "expression_engine::lexer::Operator::"
TOKV = "expression_engine::lexer::Token::"
ITEMV = "expression_engine::parser::ExpressionParserItem::"
EXPR = "expression_engine::expressions::"

# Reference precedence classes, tightest first, with associativity.  Reasons: README operator table of the
# language + the conventional C-family tiers it follows (unary > multiplicative > additive > relational >
# equality > assignment); `&` is the logical product and `|` the logical sum (README), `:` is an alias of `/`.
CLASSES = [
    ("member", ["."], "L"),
    ("not", ["Not"], "R"),
    ("multiplicative", ["And", "Multiply", "Divide", "Modulus"], "L"),
    ("additive", ["Or", "Plus", "Minus"], "L"),
    ("relational", ["Less", "LessEqual", "Greater", "GreaterEqual"], "L"),
    ("equality", ["Equal", "NotEqual"], "L"),
    ("assignment", ["Assign", "AssignUndefined"], "R"),
]
BINARY = ["Multiply", "Divide", "Plus", "Minus", "Less", "LessEqual", "Greater", "GreaterEqual", "And", "Or", "Equal", "NotEqual", "Modulus"]
# operator -> the function that implements it (the function names are the project's own vocabulary)
OPERATION = {"Multiply": "operation_multiply", "Divide": "operation_divide", "Plus": "operation_plus", "Minus": "operation_minus",
             "Less": "operation_less", "LessEqual": "operation_less_equal", "Greater": "operation_greater",
             "GreaterEqual": "operation_greater_equal", "And": "operation_and", "Or": "operation_or", "Equal": "operation_equal",
             "NotEqual": "operation_not_equal", "Modulus": "operation_modulus"}
# spelling -> operator (README grammar <operator> plus the comparison / not spellings of the README operator table)
LEXEMES = {"-": "Minus", "+": "Plus", "*": "Multiply", ":": "Divide", "/": "Divide", "&": "And", "|": "Or", "%": "Modulus",
           "?=": "AssignUndefined", "<=": "LessEqual", ">=": "GreaterEqual", "==": "Equal", "!=": "NotEqual",
           "<": "Less", ">": "Greater", "=": "Assign", "!": "Not"}
FOLD_CTOR = dict({v: "ExpressionOperator" for v in BINARY}, Assign="ExpressionAssign", AssignUndefined="ExpressionAssignUndefined",
                 Not="ExpressionNot")


def op_token(v):
    return Enum(TOKV + "Operator", [Enum(OPV + v)])


def ctor_map(F, ty):
    """{parameter index: field} of `ty::new`, read from its struct literal."""
    new = F.fn(EXPR + ty + "::new")
    lits = [n for n in new.walk() if n.get("k") == "struct"]
    if len(lits) != 1:
        raise AnchorMissing("%s::new does not consist of one struct literal" % ty)
    out = {}
    for name, e in lits[0]["f"]:
        pi = param_index(new, e)
        if pi is None:
            raise AnchorMissing("%s::new: field %s is not initialised from a parameter" % (ty, name))
        out[pi] = name
    return out


def fields_of(F, ty):
    t = F.type_(EXPR + ty)
    return [f[0] for f in t["variants"][0]["f"]]


def simulate_vec_ops(fn, root, stack_b, env):
    """Abstractly replays the `stack.remove(i)` / `stack.insert(i, x)` calls below `root` (straight-line order) on a
    list of position labels 0..10.  Returns ({binding id or None: label removed}, [insert positions])."""
    labels = list(range(11))
    got = []
    inserts = []
    for n in fn.walk(root):
        if n.get("k") == "mcall" and n["m"] in ("remove", "insert") and local_of(n["r"], NO_T) == stack_b and \
                path_matches(n.get("p") or "", "Vec::" + n["m"]):
            i = PE(fn.facts, fn, env).ev(n["a"][0])
            if not known(i) or not isinstance(i, int) or i < 0 or i >= len(labels) + (1 if n["m"] == "insert" else 0):
                raise AnchorMissing("index of stack.%s at %s is not decidable" % (n["m"], line_of(n)))
            if n["m"] == "remove":
                lab = labels.pop(i)
                par = fn.parent(n)
                b = par["pat"]["b"] if par is not None and par.get("k") == "let" and par["pat"].get("k") == "bind" else None
                got.append((b, lab))
            else:
                inserts.append(i)
                labels.insert(i, "new")
    return got, inserts


def label_of(fn, got, e):
    """Position label of the stack element that expression e (a local bound by `if let SExpression(x) = <removed>`) denotes."""
    b = local_of(e, NO_T)
    for _ in range(4):
        if b is None:
            return None
        for gb, lab in got:
            if gb == b:
                return lab
        info = fn.bindings().get(b)
        if info is None or info["from"] not in ("iflet", "let", "match"):
            return None
        src = info.get("init") if info["from"] != "match" else info.get("scrutinee")
        b = local_of(src, NO_T) if src is not None else None
    return None


def run(ctx):
    F = ctx.facts
    ctx.explanation = ("C10: operator priority classes and associativity extracted from stack_to_expression by partial evaluation, "
                       "operand positions of the folds, operator->operation dispatch, lexer character->operator table, numeric tower "
                       "of + - * / %, field-wise equivalence of the 13 get_copy implementations, compile-cache protocol and key provenance")
    ctx.assumptions += [
        "the reference precedence/associativity table (README operator table, C-family tiers) is the documented semantics",
        "std semantics of i64::saturating_*, f64 arithmetic, Vec::remove/insert, HashMap::get/insert, AtomicUsize::fetch_add",
        "rustc's HIR and type resolution for the analysed configuration",
    ]
    model = {}

    # ------------------------------------------------------------------------------------------ scan model
    def scan_model():
        fn = F.fn(PARSER + "stack_to_expression")
        stack_b = fn.params[0]["b"]
        loops = []
        for w in fn.nodes("while"):
            c = peel(w["cond"], NO_T)
            if c.get("k") == "bin" and c["op"] in ("Lt", "Ne") and local_of(c["l"], NO_T) is not None:
                r = peel(c["r"], NO_T)
                if r.get("k") == "mcall" and r["m"] == "len" and local_of(r["r"], NO_T) == stack_b:
                    loops.append((w, local_of(c["l"], NO_T)))
        # the same scan written as `for i in 0..stack.len()`
        range_loops = []
        for w in fn.nodes("for"):
            rng = peel(w["iter"], NO_T)
            if rng.get("k") == "struct" and (rng.get("r") or {}).get("p", "").endswith("ops::Range") and w["pat"].get("k") == "bind":
                fl = dict((name, v) for name, v in rng.get("f", []))
                end = peel(fl.get("end", {}), NO_T)
                if const_eval(fl.get("start", {})) == 0 and end.get("k") == "mcall" and end["m"] == "len" and local_of(end["r"], NO_T) == stack_b:
                    range_loops.append((w, w["pat"]["b"]))
        if len(loops) + len(range_loops) != 1:
            raise AnchorMissing("expected exactly one `while i < stack.len()` / `for i in 0..stack.len()` scan in stack_to_expression, found %d" % (
                len(loops) + len(range_loops)))
        if range_loops:
            w, si = range_loops[0]
            ascending = not fn.assignments_to(si)
        else:
            w, si = loops[0]
            info = fn.bindings()[si]
            start = const_eval(info["init"]) if info.get("init") is not None else None
            steps = fn.assignments_to(si)
            body_stmts = w["body"]["st"] + ([w["body"]["tail"]] if "tail" in w["body"] else [])
            ascending = start == 0 and len(steps) == 1 and steps[0].get("k") == "assignop" and steps[0]["op"] == "AddAssign" and \
                const_eval(steps[0]["r"]) == 1 and any(s is steps[0] for s in body_stmts)
        # best index: the local that receives the scan counter inside the loop
        upd = [a for a in fn.walk(w) if a.get("k") == "assign" and local_of(a["r"], NO_T) == si and local_of(a["l"], NO_T) is not None]
        best_idx = {local_of(a["l"], NO_T) for a in upd}
        if len(best_idx) != 1:
            raise AnchorMissing("cannot identify the best-index local of the scan")
        best_idx = best_idx.pop()
        sites = []
        best_prio = set()
        for a in upd:
            blk = fn.parent(a)
            sib = [x for x in blk["st"] if x.get("k") == "assign" and x is not a and local_of(x["l"], NO_T) not in (None, best_idx)]
            if len(sib) != 1:
                raise AnchorMissing("best-index update at %s is not paired with one priority update" % line_of(a))
            best_prio.add(local_of(sib[0]["l"], NO_T))
            sites.append((a, sib[0]["r"]))
        if len(best_prio) != 1:
            raise AnchorMissing("cannot identify the best-priority local of the scan")
        best_prio = best_prio.pop()
        initial = const_eval(fn.bindings()[best_prio]["init"])
        if not isinstance(initial, int):
            raise AnchorMissing("initial best priority is not a constant")
        return dict(fn=fn, stack=stack_b, loop=w, si=si, ascending=ascending, best_idx=best_idx, best_prio=best_prio,
                    sites=sites, initial=initial)

    def probe(m, token, best):
        """(updated?, priority written) when the scan meets `token` while the best priority so far is `best`."""
        fn = m["fn"]
        item = Enum(ITEMV + "SToken", [token])

        def hook(n, pe):
            if n.get("k") == "index" and local_of(n["e"], NO_T) == m["stack"] and local_of(n["i"], NO_T) == m["si"]:
                return item
            return NOHOOK
        res, prio = False, None
        for a, prio_expr in m["sites"]:
            pe = PE(F, fn, {m["best_prio"]: best, m["best_idx"]: 0, m["si"]: 7}, hook)
            r = pe.reach(a, upto=m["loop"])
            if r is True:
                res = True
                prio = pe.ev(prio_expr)
            elif r is None and res is False:
                res = None
        return res, prio

    tokens = {}
    for cname, members, assoc in CLASSES:
        for v in members:
            tokens[v] = Enum(TOKV + "Separator", ["."]) if v == "." else op_token(v)

    # ------------------------------------------------------------------------------------------ R10.1
    ctx.rule("R10.1", "priority classes extracted from stack_to_expression (value written to the best-priority local when the scan meets "
                      "each token, lower value folds first) order as  . > ! > {& * / : %} > {| + -} > {< <= > >=} > {== !=} > {= ?=}; "
                      "every Operator variant has a class")

    def r1():
        m = scan_model()
        model.update(m)
        fn = m["fn"]
        variants = [v["n"] for v in F.type_("expression_engine::lexer::Operator")["variants"]]
        known_ops = {v for _, ms, _ in CLASSES for v in ms if v != "."}
        ctx.ob("R10.1", site_key(fn, "every Operator variant is classified"), set(variants) == known_ops, fn.where,
               "Operator variants %s vs reference table %s" % (sorted(set(variants) - known_ops), sorted(known_ops - set(variants))))
        prio = {}
        for v, tok in tokens.items():
            upd, p = probe(m, tok, m["initial"])
            prio[v] = p if upd is True and isinstance(p, int) else None
        model["prio"] = prio
        rank = {v: i for i, (_, ms, _) in enumerate(CLASSES) for v in ms}
        n = 0
        for v in tokens:
            p = prio[v]
            ok = p is not None and p < m["initial"]
            bad = []
            if ok:
                for u in tokens:
                    q = prio[u]
                    if q is None or u == v:
                        continue
                    want = (rank[v] > rank[u]) - (rank[v] < rank[u])
                    have = (p > q) - (p < q)
                    if want != have:
                        bad.append("%s(%s)" % (u, q))
                # lower value wins the selection: a strictly better candidate replaces, a strictly worse one does not
                up_hi, _ = probe(m, tokens[v], p + 1)
                up_lo, _ = probe(m, tokens[v], p - 1)
                if up_hi is not True or up_lo is not False:
                    bad.append("selection is not 'lower value first' (replaces a worse best: %s, a better best: %s)" % (up_hi, up_lo))
            ctx.ob("R10.1", site_key(fn, "priority class of `%s`" % v), ok and not bad, line_of(m["loop"]),
                   "priority value %s, reference class #%d %s%s" % (p, rank[v], [c for c, ms, _ in CLASSES if v in ms][0],
                                                                    ("; inconsistent with " + ", ".join(bad)) if bad else ""))
            n += 1
        ctx.exact("R10.1", "tokens classified", n, 17)
    ctx.guard("R10.1", r1)

    # ------------------------------------------------------------------------------------------ R10.2
    ctx.rule("R10.2", "associativity = scan direction x tie-break: with the ascending scan a later token of equal priority must NOT replace "
                      "the best one for left-to-right classes (member access, all binary arithmetic/logical/comparison operators) and "
                      "must replace it for prefix `!` and the assignments; every fold re-scans the stack")

    def r2():
        m = model if model.get("fn") is not None else scan_model()
        fn = m["fn"]
        ctx.ob("R10.2", site_key(fn, "scan ascends from index 0 by 1"), m["ascending"], line_of(m["loop"]),
               "scan counter starts at 0 and is only advanced by `+= 1` at the end of the loop body: %s" % m["ascending"])
        prio = model.get("prio") or {}
        for cname, members, assoc in CLASSES:
            wrong, undec = [], []
            for v in members:
                p = prio.get(v)
                if p is None:
                    undec.append(v)
                    continue
                tie, _ = probe(m, tokens[v], p)
                if tie is None:
                    undec.append(v)
                elif tie != (assoc == "R"):
                    wrong.append(v)
            ok = m["ascending"] and not wrong and not undec
            ctx.ob("R10.2", site_key(fn, "associativity of class %s" % cname), ok, line_of(m["loop"]),
                   "class %s must group %s; on a tie the later token %s the earlier one for %s%s" % (
                       cname, "left-to-right" if assoc == "L" else "right-to-left",
                       "replaces" if assoc == "L" else "does not replace", wrong or "-", ("; undecidable: %s" % undec) if undec else ""))
        # one fold per scan: each fold site returns the recursive re-scan
        sites = fn.calls(PARSER + "fold_stack_at") + fn.calls(EXPR + "ExpressionNot::new")
        ctx.exact("R10.2", "fold sites in stack_to_expression", len(sites), 5)
        for i, c in enumerate(sites):
            anc = [a for a in fn.ancestors(c) if a.get("k") == "if"]
            ok = False
            for iff in anc:
                in_cond = any(x is c for x in hirq.walk(iff["c"]))
                region = iff["t"] if in_cond else iff
                rets = [r for r in hirq.walk(region) if r.get("k") == "ret" and "e" in r and is_call(peel(r["e"], NO_T), PARSER + "stack_to_expression")
                        and local_of(peel(r["e"], NO_T)["a"][0], NO_T) == m["stack"]]
                if rets:
                    ok = True
                    break
            ctx.ob("R10.2", site_key(fn, "fold is followed by a re-scan", i), ok, line_of(c), "successful fold returns stack_to_expression(stack)")
    ctx.guard("R10.2", r2)

    # ------------------------------------------------------------------------------------------ R10.3
    ctx.rule("R10.3", "each binary Operator variant is evaluated by its own operation_* with (left, right) in order: fold positions "
                      "(left = element before, right = element after the operator, result at the left position), constructor "
                      "parameter->field mapping, ExpressionOperator::execute, ExpressionOperator::operation; the lexer's "
                      "character->operator table covers the README operators")

    def r3_fold():
        m = model if model.get("fn") is not None else scan_model()
        fn = m["fn"]
        # (1) fold_stack_at: operand positions
        fs = F.fn(PARSER + "fold_stack_at")
        sb, ib, fb = fs.params[0]["b"], fs.params[1]["b"], fs.params[2]["b"]
        got, ins = simulate_vec_ops(fs, fs.hir, sb, {ib: 5})
        fcalls = [c for c in fs.walk() if c.get("k") == "call" and local_of(c["f"], NO_T) == fb]
        ctx.exact("R10.3", "calls of the fold function in fold_stack_at", len(fcalls), 1)
        for c in fcalls:
            l0, l1 = label_of(fs, got, c["a"][0]), label_of(fs, got, c["a"][1])
            ok = l0 == 4 and l1 == 6 and sorted(l for _, l in got) == [4, 5, 6] and ins == [4]
            ctx.ob("R10.3", site_key(fs, "f(left neighbour, right neighbour), result at the left position"), ok, line_of(c),
                   "with idx=5: f receives stack positions (%s, %s), removed %s, result inserted at %s" % (l0, l1, sorted(l for _, l in got), ins))
        # (2) dispatch of the selected operator to the expression type
        cands = [x for x in fn.nodes("match") if not any(a is m["loop"] for a in fn.ancestors(x)) and
                 any(p.get("k") == "ppath" and p["r"].get("p", "").startswith(OPV) for a in x["arms"] for p in _pats(a["pat"]))]
        ctx.exact("R10.3", "operator dispatch match in stack_to_expression", len(cands), 1)
        disp = cands[0]
        cmap = {}
        for v, ty in FOLD_CTOR.items():
            pe = PE(F, fn, {})
            arm, _ = pe.select_arm(disp, Enum(OPV + v))
            ok, detail = False, "no arm selected"
            if arm is not None:
                news = [c for c in fn.calls(root=arm["body"]) if (c.get("p") or "").startswith(EXPR + "Expression") and c["p"].endswith("::new")]
                detail = "arm builds %s" % [c["p"].split("::")[-2] for c in news]
                if len(news) == 1 and news[0]["p"] == EXPR + ty + "::new":
                    c = news[0]
                    if ty not in cmap:
                        cmap[ty] = ctor_map(F, ty)
                    by_field = {cmap[ty][i]: a for i, a in enumerate(c["a"])}
                    if v == "Not":
                        got, ins = simulate_vec_ops(fn, arm["body"], m["stack"], {m["best_idx"]: 5})
                        lab = label_of(fn, got, by_field.get("right"))
                        ok = lab == 6 and sorted(l for _, l in got) == [5, 6] and ins == [5]
                        detail = "with best_idx=5: operand is stack position %s, removed %s, result inserted at %s" % (lab, sorted(l for _, l in got), ins)
                    else:
                        cl = hirq.enclosing_closure(fn, c)
                        call = hirq.enclosing_call_of_closure(fn, cl) if cl is not None else None
                        params = [p.get("b") for p in cl["params"]] if cl is not None else []
                        okf = call is not None and is_call(call, PARSER + "fold_stack_at") and local_of(call["a"][1], NO_T) == m["best_idx"] \
                            and local_of(call["a"][0], NO_T) == m["stack"]
                        okl = len(params) == 2 and local_of(by_field.get("left"), NO_T) == params[0] and local_of(by_field.get("right"), NO_T) == params[1]
                        oko = True
                        if ty == "ExpressionOperator":
                            oko = local_of(by_field.get("operator")) is not None and local_of(by_field.get("operator")) == local_of(disp["e"])
                        ok = okf and okl and oko
                        detail = "fold_stack_at(stack, best_idx, ..): %s; fields left/right <- closure params 0/1: %s; operator field <- the dispatched operator: %s" % (okf, okl, oko)
            ctx.ob("R10.3", site_key(fn, "fold of `%s` builds %s" % (v, ty + ("(operand after the operator)" if v == "Not" else "(left, right)"))),
                   ok, line_of(disp), detail)
        # (3) member access: left operand is the accessed object
        ma = fn.calls(EXPR + "ExpressionMemberAccess::new")
        ctx.exact("R10.3", "ExpressionMemberAccess::new sites in stack_to_expression", len(ma), 1)
        for c in ma:
            cl = hirq.enclosing_closure(fn, c)
            mp = ctor_map(F, "ExpressionMemberAccess")
            by_field = {mp[i]: a for i, a in enumerate(c["a"])}
            ok = cl is not None and local_of(by_field["left"], NO_T) == cl["params"][0].get("b") and \
                hirq.mentions_local(cl["body"], cl["params"][1].get("b")) and not hirq.mentions_local(by_field["member_name"], cl["params"][0].get("b"))
            ctx.ob("R10.3", site_key(fn, "a.b: object is the left operand"), ok, line_of(c), "ExpressionMemberAccess.left <- closure param 0")

    def _pats(p):
        out = [p]
        for x in p.get("a", []) or []:
            out.extend(_pats(x))
        return out

    def r3_exec():
        ex = F.fn("<" + EXPR + "ExpressionOperator as " + EXPR + "Expression>::execute")
        selfb = ex.params[0]["b"]

        def side(e, depth=8):
            """Which child (`left`/`right`) produced the value e: follows lets, Ok-arms and transparent calls to `self.<f>.execute(..)`."""
            while depth > 0:
                depth -= 1
                e = peel(e)
                if e.get("k") == "mcall" and e["m"] == "execute":
                    f = hirq.field_of(e["r"], NO_T)
                    if f and local_of(f[0], NO_T) == selfb:
                        return f[1]
                    return None
                if e.get("k") == "match":
                    e = e["e"]
                    continue
                b = local_of(e)
                if b is None:
                    return None
                info = ex.bindings().get(b)
                if info is None:
                    return None
                if info["from"] == "let" and not ex.assignments_to(b) and info.get("init") is not None:
                    e = info["init"]
                elif info["from"] == "match":
                    e = info["scrutinee"]
                else:
                    return None
            return None
        ops = ex.calls(EXPR + "ExpressionOperator::operation")
        ctx.floor("R10.3", "calls of ExpressionOperator::operation in execute", len(ops), 1)
        for i, c in enumerate(ops):
            f1 = hirq.field_of(c["a"][1])
            ok = side(c["a"][0]) == "left" and side(c["a"][2]) == "right" and bool(f1) and f1[1] == "operator" and local_of(f1[0], NO_T) == selfb
            ctx.ob("R10.3", site_key(ex, "operation(value of self.left, self.operator, value of self.right)", i), ok, line_of(c),
                   "arg0 from self.%s.execute, arg2 from self.%s.execute" % (side(c["a"][0]), side(c["a"][2])))
        opf = F.fn(EXPR + "ExpressionOperator::operation")
        ms = [x for x in opf.nodes("match") if param_index(opf, x["e"]) == 1]
        ctx.exact("R10.3", "match on the operator in ExpressionOperator::operation", len(ms), 1)
        for v in sorted(FOLD_CTOR):
            arm, _ = PE(F, opf, {}).select_arm(ms[0], Enum(OPV + v))
            body = peel(hirq_only(arm["body"]), NO_T) if arm is not None else None
            if v in OPERATION:
                ok = body is not None and body.get("k") == "call" and (body.get("p") or "").endswith("::" + OPERATION[v]) and \
                    len(body["a"]) == 2 and param_index(opf, body["a"][0]) == 0 and param_index(opf, body["a"][1]) == 2
                detail = "arm body %s, expected %s(left, right)" % (describe(body) if body is not None else None, OPERATION[v])
            else:
                calls = [c for c in (hirq.walk(arm["body"]) if arm is not None else []) if c.get("k") == "call" and "::operation_" in (c.get("p") or "")]
                ok = arm is not None and not calls
                detail = "`%s` is not a binary operation: no operation_* call (%d found)" % (v, len(calls))
            ctx.ob("R10.3", site_key(opf, "`%s` -> %s" % (v, OPERATION.get(v, "no operation"))), ok, line_of(ms[0]), detail)

    def hirq_only(b):
        """The expression that gives a block its value (statements before it, e.g. tracing, do not matter here)."""
        while b.get("k") == "block" and "tail" in b:
            b = b["tail"]
        return b

    def r3_lexer():
        ro = F.fn("expression_engine::lexer::ExpressionLexer::read_operator")
        firstb = ro.params[1]["b"]
        # the characters handed to read_operator by the tokenizer
        nt = F.fn("expression_engine::lexer::ExpressionLexer::next_token_with_stop")
        routed = set()
        rcalls = nt.calls("ExpressionLexer::read_operator")
        ctx.floor("R10.3", "read_operator call sites in the tokenizer", len(rcalls), 1)
        for c in rcalls:
            for g in hirq.guards(nt, c):
                if g["how"] == "arm" and local_of(g["cond"], NO_T) == local_of(c["a"][0], NO_T) is not None:
                    for p in _pats(g["arm"]["pat"]):
                        if p.get("k") == "plit":
                            routed.add(plit_value(p))
        for sp, v in sorted(LEXEMES.items()):
            second = sp[1] if len(sp) == 2 else " "

            def hook(n, pe, second=second):
                if n.get("k") == "mcall" and n["m"] == "next_char":
                    return second
                return NOHOOK
            val = PE(F, ro, {firstb: sp[0]}, hook).run()
            ok = val == op_token(v)
            stop = PE(F, None, {}).ev({"k": "call", "p": "expression_engine::lexer::ExpressionLexer::is_stop", "f": {"k": "path", "r": {"k": "def", "dk": "AssocFn", "p": ""}},
                                       "a": [{"k": "lit", "v": {"char": sp[0]}}], "ty": "bool"})
            ok2 = sp[0] in routed and stop is True
            ctx.ob("R10.3", site_key(ro, "lexeme `%s` -> %s" % (sp, v)), ok and ok2, ro.where,
                   "read_operator('%s', next='%s') = %s; routed to read_operator: %s; is_stop: %s" % (sp[0], second, val, sp[0] in routed, stop))
    ctx.guard("R10.3", r3_fold)
    ctx.guard("R10.3", r3_exec)
    ctx.guard("R10.3", r3_lexer)

    # ------------------------------------------------------------------------------------------ R10.4
    ctx.rule("R10.4", "numeric tower: (Integer, Integer) arms of operation_plus/minus/multiply build Data::Integer(left.saturating_op(right)); "
                      "every arm with a Double builds Data::Double(left op right); operation_modulus keeps Integer for two Integers; "
                      "operation_divide builds only Data::Double (or Data::Error) from left.as_number() / right.as_number()")

    def r4():
        D = "datamodel::Data::"
        table = {"operation_plus": ("saturating_add", "Add"), "operation_minus": ("saturating_sub", "Sub"),
                 "operation_multiply": ("saturating_mul", "Mul"), "operation_modulus": (None, "Rem")}
        for fname, (sat, binop) in sorted(table.items()):
            fn = F.fn("datamodel::" + fname)
            lb, rb = fn.params[0]["b"], fn.params[1]["b"]
            ms = [x for x in fn.nodes("match") if peel(x["e"], NO_T).get("k") == "tup" and
                  [local_of(a, NO_T) for a in peel(x["e"], NO_T)["a"]] == [lb, rb]]
            for combo in (("Integer", "Integer"), ("Integer", "Double"), ("Double", "Integer"), ("Double", "Double")):
                val = (Enum(D + combo[0], [UNK]), Enum(D + combo[1], [UNK]))
                hits = []
                for x in ms:
                    def hook(n, pe):
                        if n.get("k") == "mcall" and n["m"] == "is_numeric" and local_of(n["r"], NO_T) in (lb, rb):
                            return True
                        return NOHOOK
                    pe = PE(F, fn, {lb: val[0], rb: val[1]}, hook)
                    if pe.reach(x) is not True:
                        continue
                    arm, binds = pe.select_arm(x, val)
                    if arm is not None:
                        hits.append((x, arm))
                ok, detail = False, "%d reachable arm(s) for (%s, %s)" % (len(hits), combo[0], combo[1])
                if len(hits) == 1:
                    x, arm = hits[0]
                    pat = arm["pat"]
                    bl = pat["a"][0]["a"][0].get("b") if pat.get("k") == "ptup" and pat["a"][0].get("k") == "pts" else None
                    br = pat["a"][1]["a"][0].get("b") if pat.get("k") == "ptup" and pat["a"][1].get("k") == "pts" else None
                    body = peel(hirq_only(arm["body"]), NO_T)
                    want = "Integer" if combo == ("Integer", "Integer") else "Double"
                    if body.get("k") == "call" and body.get("p") == D + want and len(body["a"]) == 1 and bl is not None and br is not None:
                        e = body["a"][0]
                        while e.get("k") == "block" and not e["st"] and "tail" in e:
                            e = e["tail"]
                        if want == "Integer" and sat is not None:
                            ok = e.get("k") == "mcall" and e["m"] == sat and local_of(e["r"]) == bl and local_of(e["a"][0]) == br
                            detail = "Data::Integer(%s); expected left.%s(right)" % (describe(e), sat)
                        else:
                            ok = e.get("k") == "bin" and e["op"] == binop and local_of(e["l"]) == bl and local_of(e["r"]) == br
                            detail = "Data::%s(%s); expected left %s right" % (want, describe(e), binop)
                    elif want == "Integer" and sat is None and body.get("k") == "match" and bl is not None and br is not None:
                        # total form of the remainder: match left.checked_rem(right) { Some(r) => Data::Integer(r), None => Data::Error(..) }
                        scr = peel(body["e"], NO_T)
                        good_scr = scr.get("k") == "mcall" and scr["m"] == "checked_rem" and local_of(scr["r"]) == bl and local_of(scr["a"][0]) == br
                        some_ok, none_ok = False, False
                        for a2 in body["arms"]:
                            p2 = a2["pat"]
                            b2 = peel(hirq_only(a2["body"]), NO_T)
                            if p2.get("k") in ("pts", "pstruct") and str(p2["r"].get("p", "")).endswith("::Some"):
                                subs = p2.get("a") or [f[1] for f in p2.get("f", [])]
                                some_ok = (b2.get("k") == "call" and b2.get("p") == D + "Integer" and subs and subs[0].get("k") == "bind"
                                           and local_of(b2["a"][0]) == subs[0]["b"])
                            else:
                                none_ok = b2.get("k") == "call" and b2.get("p") == D + "Error"
                        ok = good_scr and some_ok and none_ok
                        detail = "left.checked_rem(right): Some(r) -> Data::Integer(r): %s, None -> Data::Error: %s" % (some_ok, none_ok)
                    else:
                        detail = "arm builds %s, expected Data::%s(..)" % (describe(body), want)
                ctx.ob("R10.4", site_key(fn, "(%s, %s)" % combo), ok, fn.where, detail)
        dv = F.fn("datamodel::operation_divide")
        lb, rb = dv.params[0]["b"], dv.params[1]["b"]
        ctors = [c for c in dv.walk() if c.get("k") == "call" and (c.get("p") or "").startswith(D) and not hirq.in_trace_macro(c)]
        kinds = sorted({c["p"][len(D):] for c in ctors})
        ctx.ob("R10.4", site_key(dv, "result is Double or Error"), set(kinds) <= {"Double", "Error"} and "Double" in kinds, dv.where,
               "operation_divide constructs Data::%s" % kinds)
        divs = [b for b in dv.walk() if b.get("k") == "bin" and b["op"] == "Div"]
        ctx.exact("R10.4", "division sites in operation_divide", len(divs), 1)

        def numof(e):
            o = hirq.origin(dv, e)
            x = peel(o["expr"], NO_T) if o.get("from") == "expr" else peel(e, NO_T)
            if x.get("k") == "mcall" and x["m"] == "as_number":
                return local_of(x["r"], NO_T)
            return None
        for b in divs:
            dbl = [c for c in ctors if c["p"] == D + "Double"]
            flows = any(local_of(c["a"][0]) is not None and hirq.single_def(dv, local_of(c["a"][0])) is b or peel(c["a"][0]) is b for c in dbl)
            ok = numof(b["l"]) == lb and numof(b["r"]) == rb and flows
            ctx.ob("R10.4", site_key(dv, "Data::Double(left.as_number() / right.as_number())"), ok, line_of(b),
                   "dividend from param %s, divisor from param %s, quotient reaches Data::Double: %s" % (
                       "left" if numof(b["l"]) == lb else "?", "right" if numof(b["r"]) == rb else "?", flows))
    ctx.guard("R10.4", r4)

    def r4_cmp():
        # the four ordering operators are siblings: each compares numbers through as_number() and strings through to_string() with ITS OWN
        # Rust operator, left operand first, and is false for every other pair of types (a comparison with NaN or between mixed types is
        # false for all four - so none of them is the complement of another)
        want = {"operation_less": "Lt", "operation_less_equal": "Le", "operation_greater": "Gt", "operation_greater_equal": "Ge"}
        for name, op in sorted(want.items()):
            fn = F.fn("datamodel::" + name)
            pl, pr = fn.params[0]["b"], fn.params[1]["b"]
            cmps = [b for b in fn.walk() if b.get("k") == "bin" and b["op"] in ("Lt", "Le", "Gt", "Ge") and not macros_of(b)]   # not the level test inside warn!
            own = [b for b in cmps if b["op"] == op]
            order_ok = all(hirq.mentions_local(b["l"], pl) and not hirq.mentions_local(b["l"], pr) and
                           hirq.mentions_local(b["r"], pr) and not hirq.mentions_local(b["r"], pl) for b in cmps)
            via = sorted({m["m"] for b in cmps for side in (b["l"], b["r"]) for m in hirq.walk(side) if m.get("k") == "mcall" and m["m"] in ("as_number", "to_string")})
            deleg = [c.get("p") for c in fn.walk() if c.get("k") in ("call", "mcall") and (c.get("p") or "").startswith("datamodel::operation_")]
            falses = [c for c in fn.walk() if c.get("k") == "call" and (((c.get("p") or "").endswith("Data::Boolean") and c["a"] and const_eval(c["a"][0]) is False) or
                                                                       (c.get("p") or "").endswith("Data::Error"))]   # `>` answers Data::Error, its siblings false: both "not true"
            ok = len(cmps) == 2 and len(own) == 2 and order_ok and via == ["as_number", "to_string"] and not deleg and len(falses) >= 1
            ctx.ob("R10.4", site_key(fn, "ordering operator compares with its own operator, false for other types"), ok, fn.where,
                   "comparisons %s (expected 2 x %s), left operand first: %s, through %s, delegates to %s, literal false results: %d" % (
                       [b["op"] for b in cmps], op, order_ok, via, deleg or "nothing", len(falses)))
    ctx.guard("R10.4", r4_cmp)

    def r4_eq():
        # structural equality of scalars: every scalar arm of <Data as PartialEq>::eq - (Integer|Double|String|Boolean) x the same or the
        # other numeric type - is one `==` between the two payloads (an Integer widened with `as f64` where the other side is a Double):
        # no tolerance, no helper, and the two mixed arms mirror each other
        eqs = [f for f in F.fn_list if f.path.startswith("<datamodel::Data as ") and f.path.endswith("PartialEq>::eq")]
        ctx.exact("R10.4", "PartialEq implementations of Data", len(eqs), 1)
        fn = eqs[0]
        SCALAR = ("Integer", "Double", "String", "Boolean")
        n = 0
        for m in fn.nodes("match"):
            for a in m["arms"]:
                p = a["pat"]
                if p.get("k") != "ptup" or len(p["a"]) != 2:
                    continue
                heads, binds = [], []
                for s in p["a"]:
                    hd = (s.get("r") or {}).get("p", "").split("::")[-1] if s.get("k") == "pts" else None
                    heads.append(hd)
                    binds.append(s["a"][0]["b"] if s.get("k") == "pts" and len(s.get("a", [])) == 1 and s["a"][0].get("k") == "bind" else None)
                if not all(h in SCALAR for h in heads):
                    continue
                n += 1
                body = peel(a["body"], NO_T)
                sides = {local_of(body["l"], NO_T), local_of(body["r"], NO_T)} if body.get("k") == "bin" and body["op"] == "Eq" else set()
                calls = [c for c in hirq.walk(a["body"]) if c.get("k") in ("call", "mcall")]
                ok = None not in binds and sides == set(binds) and not calls
                ctx.ob("R10.4", site_key(fn, "(%s, %s) compares the two payloads with ==" % tuple(heads)), ok, line_of(a["body"]),
                       "arm value %s" % describe(a["body"])[:80])
        ctx.floor("R10.4", "scalar arms of Data::eq", n, 6)
    ctx.guard("R10.4", r4_eq)

    # ------------------------------------------------------------------------------------------ R10.5
    ctx.rule("R10.5", "cache equivalence: each get_copy rebuilds its own type and initialises every field (through the constructor's "
                      "parameter->field mapping) from the same field of self, collections element-wise in order; compile() caches and "
                      "returns copies of the same parse under the key source.source_id != 0; cache keys come only from "
                      "SOURCE_ID_COUNTER.fetch_add (start >= 1), the literal 0 (uncached) or the deserializer")

    def r5_copy():
        impls = sorted(F.impls.get(EXPR + "Expression::get_copy", ()))
        inherent = [f.path for f in F.fn_list if f.path == EXPR + "ExpressionMethod::get_copy"]
        ctx.exact("R10.5", "get_copy implementations", len(impls) + len(inherent), 13)
        for path in impls + inherent:
            fn = F.fns[path]
            ty = fn.self_ty.split("::")[-1] if fn.self_ty else path.split("::")[-2]
            selfb = fn.params[0]["b"]
            outs = [fn.hir.get("tail")] if fn.hir.get("tail") is not None else []
            outs += [r["e"] for r in fn.nodes("ret") if "e" in r]
            if len(outs) != 1:
                ctx.ob("R10.5", site_key(fn, "single result"), False, fn.where, "%d result expressions" % len(outs))
                continue
            res = peel(outs[0], NO_T)
            # delegation: the trait method of ExpressionMethod calls the inherent get_copy on self
            if res.get("k") == "mcall" and res.get("p") == EXPR + "ExpressionMethod::get_copy" and path != res["p"]:
                ok = local_of(res["r"], NO_T) == selfb and ty == "ExpressionMethod"
                ctx.ob("R10.5", site_key(fn, "delegates to the inherent get_copy of self"), ok, fn.where, "returns self.get_copy() of %s" % ty)
                continue
            inner = peel(res["a"][0], NO_T) if is_call(res, "Box::new") and len(res["a"]) == 1 else None
            fields = fields_of(F, ty)
            by_field = None
            if inner is not None and inner.get("k") == "call" and inner.get("p") == EXPR + ty + "::new":
                mp = ctor_map(F, ty)
                by_field = {mp[i]: a for i, a in enumerate(inner["a"]) if i in mp}
            elif inner is not None and inner.get("k") == "struct" and (inner["r"].get("p") or "") == EXPR + ty:
                by_field = {name: e for name, e in inner["f"]}
            ctx.ob("R10.5", site_key(fn, "rebuilds the same type"), by_field is not None, fn.where,
                   "result %s, expected Box::new(%s::new(..))" % (describe(res), ty))
            if by_field is None:
                continue
            for f in fields:
                src, how = (copy_source(fn, selfb, by_field[f]) if f in by_field else (None, "field not initialised"))
                ctx.ob("R10.5", site_key(fn, "field %s copied from self.%s" % (f, f)), src == f, fn.where,
                       "%s.%s <- %s (%s)" % (ty, f, ("self." + src) if src else "?", how))

    def copy_source(fn, selfb, e):
        """(field of self that expression e copies, how)."""
        COPYING = {"clone", "get_copy", "as_str", "to_string", "to_owned", "as_ref"}
        x = e
        while True:
            x = peel(x, NO_T)
            if x.get("k") == "mcall" and x["m"] in COPYING and not x["a"]:
                x = x["r"]
                continue
            break
        f = hirq.field_of(x, NO_T)
        if f and local_of(f[0], NO_T) == selfb:
            return f[1], "direct copy"
        b = local_of(x, NO_T)
        if b is None:
            return None, "not derived from a field of self"
        d = hirq.single_def(fn, b)
        if d is not None and not any(c.get("k") == "mcall" and c["m"] == "push" and local_of(c["r"], NO_T) == b for c in fn.walk()):
            return copy_source(fn, selfb, d)  # hoisted `let l = self.left.get_copy();`
        info = fn.bindings().get(b)
        if not info or info["from"] != "let":
            return None, "local is not a fresh collection"
        pushes = [c for c in fn.walk() if c.get("k") == "mcall" and c["m"] == "push" and local_of(c["r"], NO_T) == b]
        others = [c for c in fn.walk() if c.get("k") == "mcall" and local_of(c["r"], NO_T) == b and c["m"] not in ("push",)]
        if len(pushes) != 1 or others or fn.assignments_to(b):
            return None, "collection is not filled by exactly one push"
        push = pushes[0]
        loops = hirq.enclosing_loops(fn, push)
        if len(loops) != 1 or loops[0].get("k") != "for" or hirq.guards(fn, push):
            return None, "push is not the unconditional body of one for loop"
        lp = loops[0]
        it = hirq.field_of(lp["iter"])
        if not it or local_of(it[0], NO_T) != selfb:
            return None, "loop does not iterate a field of self"
        pat = lp["pat"]
        arg = peel(push["a"][0], NO_T)

        def elem_copy(expr, bid):
            y = peel(expr, NO_T)
            return y.get("k") == "mcall" and y["m"] == "get_copy" and not y["a"] and local_of(y["r"], NO_T) == bid
        if pat.get("k") == "bind":
            ok = elem_copy(arg, pat["b"])
        elif pat.get("k") == "ptup" and arg.get("k") == "tup" and len(arg["a"]) == len(pat["a"]):
            ok = all(sp.get("k") == "bind" and elem_copy(a, sp["b"]) for sp, a in zip(pat["a"], arg["a"]))
        else:
            ok = False
        return (it[1], "element-wise get_copy in order") if ok else (None, "elements are not copied position by position")

    def r5_state():
        # `execute` and `get_copy` take &self: a compiled node can carry state from one evaluation to the next, or share it with
        # its cached copies, only through interior mutability or a shared value handle in one of its fields.  Field types are the
        # resolved ones (aliases expanded); crate-local types are followed, except datamodel::Data (a constant's value; evaluation
        # must clone it, which &self enforces, and its lexer-made values are scalars).
        import re
        SHARED = re.compile(r"\b(DataArc|Arc|Rc|Weak|Mutex|RwLock|Cell|RefCell|OnceCell|OnceLock|LazyCell|LazyLock|UnsafeCell|Atomic[A-Za-z0-9]+)\b|\*(const|mut) ")
        impls = sorted(F.impls.get(EXPR + "Expression::execute", ()))
        ctx.floor("R10.5", "types implementing Expression", len(impls), 12)

        def offending(tstr, seen):
            m = SHARED.search(tstr)
            if m:
                return "%s in `%s`" % (m.group(0).strip(), tstr)
            for name in re.findall(r"[A-Za-z_][A-Za-z0-9_]*(?:::[A-Za-z_][A-Za-z0-9_]*)+", tstr):
                if name in seen or name == "datamodel::Data" or name not in F.types:
                    continue
                seen.add(name)
                for v in F.types[name].get("variants", ()):
                    for fname, fty in v["f"]:
                        r = offending(fty, seen)
                        if r:
                            return "%s.%s: %s" % (name.split("::")[-1], fname, r)
            return None
        for path in impls:
            fn = F.fns[path]
            tname = fn.self_ty
            t = F.types.get(tname)
            if t is None:
                ctx.ob("R10.5", "%s|fields known" % tname, False, fn.where, "no type facts for %s" % tname)
                continue
            for v in t["variants"]:
                for fname, fty in v["f"]:
                    bad = offending(fty, {tname})
                    ctx.ob("R10.5", "%s|field %s holds no shared or interior-mutable state" % (tname.split("::")[-1], fname), bad is None, fn.where,
                           ("type %s" % fty) if bad is None else "a compiled node would share this with its cached copies / keep it across evaluations: %s" % bad)

    def r5_cache():
        cf = F.fn("datamodel::expression_engine::RFsmExpressionDatamodel::compile")
        selfb, srcb = cf.params[0]["b"], cf.params[1]["b"]

        def is_src_field(e, name):
            f = hirq.field_of(e)
            return bool(f) and f[1] == name and local_of(f[0], NO_T) == srcb

        def is_cache(e):
            f = hirq.field_of(e, NO_T)
            return bool(f) and f[1] == "compilations" and local_of(f[0], NO_T) == selfb
        ins = [c for c in cf.calls("HashMap::insert") if is_cache(c["r"])]
        gets = [c for c in cf.calls("HashMap::get") if is_cache(c["r"])]
        parses = cf.calls(PARSER + "parse")
        ctx.exact("R10.5", "compilations.insert sites in compile", len(ins), 1)
        ctx.exact("R10.5", "compilations.get sites in compile", len(gets), 1)
        ctx.floor("R10.5", "ExpressionParser::parse sites in compile", len(parses), 1)
        for i, p in enumerate(parses):
            ctx.ob("R10.5", site_key(cf, "parses source.source", i), is_src_field(p["a"][0], "source"), line_of(p), "argument %s" % describe(p["a"][0]))
        all_mut = mutations_of_field(F, "RFsmExpressionDatamodel", "compilations")
        for fn, n, kind, meth, par in all_mut:
            ctx.ob("R10.5", "%s|compilations.%s" % (fn.path, meth or kind), fn.path == cf.path and meth == "insert", line_of(n),
                   "%s mutates the compile cache via %s" % (fn.path, meth or kind))
        for c in ins:
            key_ok = is_src_field(c["a"][0], "source_id")
            v = peel(c["a"][1], NO_T)
            parsed = None
            if v.get("k") == "mcall" and v["m"] == "get_copy" and not v["a"]:
                o = hirq.origin(cf, v["r"])
                x = o.get("expr") if o.get("from") == "expr" else None
                if x is not None and x.get("k") == "try":
                    x = peel(x["e"], NO_T)
                if x is not None and is_call(x, PARSER + "parse"):
                    parsed = local_of(v["r"], NO_T)
            g = hirq.guard_atoms(cf, c)
            nz = any(a.get("k") == "bin" and ((a["op"] == "Eq" and pol is False) or (a["op"] == "Ne" and pol is True)) and
                     is_src_field(a["l"], "source_id") and const_eval(a["r"]) == 0 for a, pol in g if isinstance(a, dict) and pol is not None)
            ctx.ob("R10.5", site_key(cf, "cache insert: key source.source_id, value a copy of the fresh parse, id != 0"),
                   key_ok and parsed is not None and nz, line_of(c),
                   "key is source.source_id: %s; value is <parsed>.get_copy(): %s; under source_id != 0: %s" % (key_ok, parsed is not None, nz))
            # the miss path returns the parse itself
            blk = [a for a in cf.ancestors(c) if a.get("k") == "block"][0]
            tail = peel(blk.get("tail", {}), NO_T) if blk.get("tail") is not None else {}
            ok = is_call(tail, "Ok") and parsed is not None and local_of(tail["a"][0], NO_T) == parsed
            ctx.ob("R10.5", site_key(cf, "miss path returns the expression it cached a copy of"), ok, line_of(c), "block result %s" % (describe(tail) if tail else "-"))
        for c in gets:
            key_ok = is_src_field(c["a"][0], "source_id")
            # the hit arm returns a copy of the cached expression
            b = None
            par = cf.parent(c)
            while par is not None and par.get("k") in ("ref",):
                par = cf.parent(par)
            holder = par["pat"]["b"] if par is not None and par.get("k") == "let" and par["pat"].get("k") == "bind" else None
            hit = False
            for mm in cf.nodes("match"):
                if (holder is not None and local_of(mm["e"], NO_T) == holder) or peel(mm["e"], NO_T) is c:
                    for arm in mm["arms"]:
                        if arm["pat"].get("k") == "pts" and arm["pat"]["r"]["p"].endswith("Some") and arm["pat"]["a"][0].get("k") == "bind":
                            eb = arm["pat"]["a"][0]["b"]
                            t = arm["body"]
                            t = peel(t["tail"], NO_T) if t.get("k") == "block" and "tail" in t else peel(t, NO_T)
                            if is_call(t, "Ok"):
                                y = peel(t["a"][0], NO_T)
                                hit = y.get("k") == "mcall" and y["m"] == "get_copy" and local_of(y["r"], NO_T) == eb
            ctx.ob("R10.5", site_key(cf, "cache hit: looked up by source.source_id, returns a copy"), key_ok and hit, line_of(c),
                   "key is source.source_id: %s; Some(e) => Ok(e.get_copy()): %s" % (key_ok, hit))

    def r5_keys():
        # every construction of SourceCode outside its own constructors
        sites = []
        for fn in F.fn_list:
            if fn.hir is None:
                continue
            for n in fn.walk():
                if n.get("k") == "call" and (n.get("p") or "") in ("datamodel::SourceCode::new", "datamodel::SourceCode::new_move"):
                    sites.append((fn, n, n["a"][1]))
                elif n.get("k") == "struct" and (n["r"].get("p") or "") == "datamodel::SourceCode" and not fn.path.startswith("datamodel::SourceCode::"):
                    idf = [e for name, e in n["f"] if name == "source_id"]
                    sites.append((fn, n, idf[0] if idf else None))
        ctx.floor("R10.5", "SourceCode construction sites", len(sites), 5)
        counter = "scxml_reader::SOURCE_ID_COUNTER"
        cnt = {}
        for fn, n, idx in sites:
            e = peel(idx, NO_T) if idx is not None else None
            if e is not None and e.get("k") == "call" and (e.get("p") or "").endswith("Clone::clone") and len(e["a"]) == 1:
                e = peel(e["a"][0], NO_T)  # derive(Clone) spells the field copy as Clone::clone(&self.f)
            owner = fn.path if fn.kind != "Closure" else fn.parent_path
            if e is None:
                kind = "id missing"
            elif const_eval(e) == 0:
                kind = "0 (never cached)"
            elif e.get("k") == "mcall" and e["m"] == "fetch_add" and hirq.def_path(e["r"]) == counter and const_eval(e["a"][0]) == 1:
                kind = "SOURCE_ID_COUNTER.fetch_add(1)"
            elif hirq.field_of(e) and hirq.field_of(e)[1] == "source_id":
                kind = "copy of an existing SourceCode's id"
            elif owner.startswith("serializer::"):
                kind = "deserializer (id stored in the image)"
            else:
                kind = None
            i = cnt.get(owner, 0)
            cnt[owner] = i + 1
            ctx.ob("R10.5", site_key(fn, "SourceCode id provenance", i), kind is not None, line_of(n), "id = %s: %s" % (describe(idx) if idx is not None else "?", kind or "NOT from the counter, 0 or the deserializer"))
        uses = []
        for fn in F.fn_list:
            if fn.hir is None:
                continue
            for n in fn.walk():
                if n.get("k") == "path" and n["r"].get("k") == "def" and n["r"].get("p") == counter:
                    par = fn.parent(n)
                    while par is not None and par.get("k") == "ref":
                        par = fn.parent(par)
                    uses.append((fn, n, par))
        ctx.floor("R10.5", "uses of SOURCE_ID_COUNTER", len(uses), 2)
        cnt = {}
        for fn, n, par in uses:
            ok = par is not None and par.get("k") == "mcall" and par["m"] == "fetch_add" and const_eval(par["a"][0]) == 1
            i = cnt.get(fn.path, 0)
            cnt[fn.path] = i + 1
            ctx.ob("R10.5", site_key(fn, "SOURCE_ID_COUNTER only via fetch_add(1)", i), ok, line_of(n), "used as %s" % (describe(par) if par else "?"))
        init = F.const(counter)["init"]
        start = const_eval(init["a"][0]) if init.get("k") == "call" and init.get("a") else None
        ctx.ob("R10.5", "scxml_reader::SOURCE_ID_COUNTER|starts above 0", isinstance(start, int) and start >= 1, "", "initial value %s (0 means 'do not cache')" % start)
        muts = mutations_of_field(F, "SourceCode", "source_id")
        ctx.ob("R10.5", "datamodel::SourceCode|source_id is never re-assigned", not muts, "", "%d mutation(s) of SourceCode.source_id" % len(muts))
    ctx.guard("R10.5", r5_copy)
    ctx.guard("R10.5", r5_state)
    ctx.guard("R10.5", r5_cache)
    ctx.guard("R10.5", r5_keys)
