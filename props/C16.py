"""C16 — delayed sends fire once, not early, in due-time order, unless cancelled.

Decided (structure only): what the timer closure captures and can reach (evaluate-at-execute),
must-consume of the timer Guard (MIR: no Guard-typed place is dropped on a normal path), who
removes / inserts entries of GlobalData.delayed_send and with which key, the branch condition
of the timer path, the unit table of parse_duration_to_milliseconds, ownership of the Timer.
Not decided: real time ("not early", due order, exactly once at run time) — the `timer` crate's contract.
"""
from common import *
import hirq
from peval import PE, UNK, NOHOOK, Enum, known, Ret

EXEC = "<executable_content::SendParameters as executable_content::ExecutableContent>::execute"
CANCEL = "<executable_content::Cancel as executable_content::ExecutableContent>::execute"
GUARD_TY = "timer::Guard"

# unit -> milliseconds (CSS2 time units s/ms required by SCXML; m, h, d are the project's documented extension,
# see the RegExp in the function's doc comment). Both all-lower and all-upper spellings are accepted.
UNITS = {"d": 86400000.0, "h": 3600000.0, "m": 60000.0, "s": 1000.0, "ms": 1.0}
# data-model entry points that evaluate expressions / locations / content
EVAL_API = ["execute", "execute_condition", "execute_for_each", "executeContent", "evaluate_content", "evaluate_params",
            "get_by_location", "get_expression_alternative_value", "assign"]
# `datamodel::Data*` covers Data (possibly an unevaluated Source) and DataArc (a shared cell that can change until the timer fires)
FORBIDDEN_CAPTURE = ("&", "dyn datamodel::Datamodel", "executable_content::", "fsm::Fsm", "fsm::CommonContent", "datamodel::Data", "datamodel::SourceCode")


def root_local(e, fn=None):
    """The local at the bottom of a receiver chain like `datamodel.global().lock().unwrap().delayed_send`
    (through single-assignment lets such as `let mut gd = datamodel.global().lock().unwrap();` when fn is given)."""
    for _ in range(16):
        e = peel(e, NO_T)
        k = e.get("k")
        if k == "field":
            e = e["e"]
        elif k == "mcall":
            e = e["r"]
        elif k == "path" and e["r"].get("k") == "local":
            d = hirq.single_def(fn, e["r"]["b"]) if fn is not None else None
            if d is None:
                return e["r"]["b"]
            e = d
        else:
            return None
    return None


def holds_mv_of(x, proj):
    if isinstance(x, dict):
        if "mv" in x and isinstance(x["mv"], list) and proj in x["mv"]:
            return True
        return any(holds_mv_of(v, proj) for v in x.values())
    if isinstance(x, list):
        return any(holds_mv_of(v, proj) for v in x)
    return False


def run(ctx):
    F = ctx.facts
    ctx.explanation = ("C16: captures and call-reachability of the closure handed to Fsm::schedule, must-consume of timer::Guard on MIR, "
                       "writers and keys of GlobalData.delayed_send, timer branch iff delay_ms > 0, duration unit table, Timer owned by Fsm")
    ctx.assumptions += [
        "the `timer` crate: schedule_with_delay runs the callback once, not before the delay, unless its Guard is dropped; Guard::ignore detaches; dropping the Timer discards pending callbacks",
        "`F: 'static + Send` on Fsm::schedule (checked by rustc) forbids borrowing the data model into the closure",
        "rustc's HIR/MIR (drop elaboration) for the analysed configuration",
    ]
    ex = F.fn(EXEC)
    dmb = ex.params[1]["b"]

    def schedule_sites():
        out = []
        for fn in F.fn_list:
            if fn.hir is None:
                continue
            for c in fn.calls("fsm::Fsm::schedule"):
                out.append((fn, c))
        return out

    # ------------------------------------------------------------------------------------------ R16.1
    ctx.rule("R16.1", "evaluate-at-execute: the closure handed to Fsm::schedule captures only owned values (no reference, no data model, no "
                      "unevaluated <send> attribute holder) that are defined before the schedule call, and no data-model evaluation entry "
                      "point (execute, evaluate_*, get_by_location, ...) is reachable from it in the call graph")

    def r1():
        sites = schedule_sites()
        ctx.exact("R16.1", "Fsm::schedule call sites in the crate", len(sites), 1)
        cg = F.callgraph
        api = set()
        for m in EVAL_API:
            api |= set(F.impls.get("datamodel::Datamodel::" + m, ()))
        api |= {f.path for f in F.fn_list if f.path.startswith("expression_engine::parser::ExpressionParser::") and f.name in ("parse", "execute", "execute_str")}
        api |= set(F.impls.get("expression_engine::expressions::Expression::execute", ()))
        ctx.floor("R16.1", "evaluation entry points known to the rule", len(api), 10)
        for fn, c in sites:
            cl = peel(c["a"][1], NO_T)
            if cl.get("k") != "closure":
                ctx.ob("R16.1", site_key(fn, "callback is a closure literal"), False, line_of(c), "callback is %s" % describe(cl))
                continue
            cfn = F.fns.get(cl["p"])
            if cfn is None:
                raise AnchorMissing("closure %s has no MIR body" % cl["p"])
            idx = hirq.order_index(fn)
            inside = {id(n) for n in hirq.walk(cl)}
            caps = {}
            for n in hirq.walk(cl["body"]):
                if n.get("k") == "path" and n["r"].get("k") == "local":
                    info = fn.bindings().get(n["r"]["b"])
                    if info is not None and id(info.get("node", info.get("closure"))) not in inside and info["from"] != "closure_param":
                        caps[n["r"]["b"]] = info
            ctx.exact("R16.1", "variables captured by the timer closure", len(caps), len(cfn.upvars))
            for b, info in sorted(caps.items(), key=lambda kv: kv[1]["name"]):
                ty = info.get("ty", "")
                bad = [x for x in FORBIDDEN_CAPTURE if (ty.startswith(x) if x == "&" else x in ty)]
                before = info["from"] == "let" and idx[id(info["node"])] < idx[id(c)]
                ctx.ob("R16.1", site_key(fn, "capture `%s` is an owned value computed before scheduling" % info["name"]), not bad and before, line_of(c),
                       "type %s%s; defined by a let before the schedule call: %s" % (ty, ("; forbidden: %s" % bad) if bad else "", before))
            for u in cfn.upvars:
                ty = u.get("ty", "")
                bad = [x for x in FORBIDDEN_CAPTURE if (ty.startswith(x) if x == "&" else x in ty)]
                if bad:
                    ctx.ob("R16.1", site_key(fn, "closure upvar type %s" % ty), False, line_of(c), "captured by the closure: %s is %s" % (ty, bad))
            seen = cg.reachable([cfn.path], follow_async=True)
            hit = sorted(set(seen) & api)
            ctx.ob("R16.1", site_key(fn, "no evaluation entry point reachable from the timer closure"), not hit, line_of(c),
                   "%d function(s) reachable; evaluation entry points among them: %s" % (len(seen), [(h, cg.witness(seen, h)[-2:]) for h in hit[:3]] or "none"))
            ext = [e["callee"] for p in seen for e in cg.edges.get(p, ()) if "boa_engine" in e["callee"] and ("::eval" in e["callee"] or "::run" in e["callee"])]
            ctx.ob("R16.1", site_key(fn, "no script engine entry reachable from the timer closure"), not ext, line_of(c), "boa eval/run callees: %s" % (sorted(set(ext)) or "none"))
            # positive control: the same query does find evaluation from the enclosing execute
            ctl = set(cg.reachable([fn.path], follow_async=False)) & api
            ctx.floor("R16.1", "control: evaluation entry points reachable from SendParameters::execute itself", len(ctl), 3)
    ctx.guard("R16.1", r1)

    # ------------------------------------------------------------------------------------------ R16.2
    ctx.rule("R16.2", "must-consume: in no function is a place whose type contains timer::Guard dropped on a non-unwinding path, except the "
                      "Option<Guard> returned by delayed_send.remove (an explicit cancel; R16.3 says who may) and by delayed_send.insert (R16.3), "
                      "and a Guard is passed by value only to HashMap::insert or Guard::ignore; i.e. the Guard returned by schedule always "
                      "ends in delayed_send or is detached")

    def r2():
        holders = 0
        for fn in F.fn_list:
            if not any(GUARD_TY in l["ty"] for l in fn.locals):
                continue
            holders += 1
            dest_of = {}
            for bi, t in fn.mir_calls():
                if isinstance(t.get("d"), int):
                    dest_of[t["d"]] = t["f"]
            bad, ok_drops = [], []
            for bi, b in enumerate(fn.blocks):
                t = b["t"]
                if t["k"] != "drop" or b.get("cleanup") or GUARD_TY not in t.get("ty", ""):
                    continue
                src = dest_of.get(t["p"]) if isinstance(t["p"], int) else None
                if src and (path_matches(src, "HashMap::remove") or path_matches(src, "HashMap::insert")):
                    ok_drops.append(src.split("::")[-1])
                else:
                    bad.append("%s:%d drops %s" % (t["s"][6], t["s"][3], t["ty"]))
            for bi, t in fn.mir_calls():
                if fn.blocks[bi].get("cleanup"):
                    continue
                byval = [ty for ty in t.get("argtys", []) if GUARD_TY in ty and not ty.startswith("&")]
                if byval and not (path_matches(t["f"], "HashMap::insert") or path_matches(t["f"], "timer::Guard::ignore")):
                    bad.append("%s:%d hands a %s to %s" % (t["s"][6], t["s"][3], byval[0], t["f"]))
            ctx.ob("R16.2", site_key(fn, "no timer guard dropped on a normal path"), not bad, fn.where,
                   "%s; results of %s are covered by R16.3" % (bad or "no stray drop of a Guard-typed place", sorted(set(ok_drops)) or "-"))
        ctx.floor("R16.2", "functions holding a Guard-typed local", holders, 4)
        ign = [(fn, c) for fn in F.fn_list if fn.hir is not None for c in fn.calls("timer::Guard::ignore")]
        ctx.floor("R16.2", "Guard::ignore sites", len(ign), 1)
        # the schedule result is looked at unconditionally (HIR): `tg` is consumed by a pattern that binds the guard
        for fn, c in schedule_sites():
            par = fn.parent(c)
            tb = par["pat"]["b"] if par is not None and par.get("k") == "let" and par["pat"].get("k") == "bind" else None
            uses = [n for n in fn.walk() if n.get("k") == "path" and n["r"].get("k") == "local" and n["r"]["b"] == tb] if tb is not None else []
            okU = len(uses) == 1 and fn.parent(uses[0]).get("k") in ("letx", "match", "let")
            ctx.ob("R16.2", site_key(fn, "schedule result is destructured, not discarded"), tb is not None and okU, line_of(c),
                   "Option<Guard> bound to `%s`, used %d time(s) as a pattern scrutinee" % (par["pat"].get("n") if tb is not None else "?", len(uses)))
    ctx.guard("R16.2", r2)

    # ------------------------------------------------------------------------------------------ R16.3
    ctx.rule("R16.3", "GlobalData.delayed_send: remove only in Cancel::execute (key = the evaluated sendid/sendidexpr, on the executing data "
                      "model's own global data) and in the timer closure (key = the send's own id); insert only in SendParameters::execute "
                      "(key = the same id the event carries as sendid, value = the guard returned by schedule); an insert must not replace a pending guard")

    def r3():
        muts = mutations_of_field(F, "GlobalData", "delayed_send")
        seen = set()
        sites = {}
        for fn, n, kind, meth, par in muts:
            incl = hirq.enclosing_closure(fn, n) is not None
            who = (fn.path, incl, meth or kind)
            seen.add(who)
            sites.setdefault(who, []).append((fn, n, par))
        allowed = {(CANCEL, False, "remove"), (EXEC, True, "remove"), (EXEC, False, "insert")}
        for who in sorted(seen | allowed, key=str):
            ok = who in allowed and who in seen
            ctx.ob("R16.3", "%s%s|delayed_send.%s" % (who[0], "{closure}" if who[1] else "", who[2]), ok, line_of(sites[who][0][1]) if who in sites else "",
                   "%s%s %s delayed_send via %s" % (who[0], " (timer closure)" if who[1] else "", "mutates" if who in seen else "NO LONGER mutates", who[2]))
            if who in sites:
                label = "the timer closure" if who[1] else {CANCEL: "Cancel::execute", EXEC: "SendParameters::execute"}.get(who[0], who[0])
                ctx.exact("R16.3", "delayed_send.%s sites in %s" % (who[2], label), len(sites[who]), 1)
        # --- the send id local of execute: what the event carries
        lit = [n for n in ex.walk() if n.get("k") == "struct" and n["r"].get("p") == "fsm::Event"]
        sidb = local_of(dict((a, b) for a, b in lit[0]["f"])["sendid"]) if len(lit) == 1 else None
        if sidb is None:
            raise AnchorMissing("cannot identify the send id local of SendParameters::execute")

        def some_of(fn, e):
            """binding that `e` was bound from by `if let Some(e) = &X` / `= X` -> local X (through one clone-let)."""
            b = local_of(e)
            info = fn.bindings().get(b) if b is not None else None
            if not info or info["from"] not in ("iflet", "match"):
                return None
            src = info.get("init") if info["from"] == "iflet" else info.get("scrutinee")
            pat = info["node"]["pat"] if info["from"] == "iflet" else info["arm"]["pat"]
            if not (pat.get("k") == "pts" and pat["r"]["p"].endswith("Some")):
                return None
            x = local_of(src)
            d = hirq.single_def(fn, x) if x is not None else None
            if d is not None and local_of(d) is not None:
                x = local_of(d)  # let send_id_clone = send_id.clone();
            return x
        # cancel
        ca = F.fn(CANCEL)
        for fn, n, par in sites.get((CANCEL, False, "remove"), []):
            info = hirq.origin(ca, par["a"][0])
            okk = False
            if info.get("from") in ("iflet", "match"):
                src = peel(info.get("init") if info["from"] == "iflet" else info.get("scrutinee"), NO_T)
                if src.get("k") == "mcall" and src["m"] == "get_expression_alternative_value" and local_of(src["r"], NO_T) == ca.params[1]["b"]:
                    a0 = peel(src["a"][0], NO_T)
                    if is_call(a0, "datamodel::str_to_source"):
                        a0 = a0["a"][0]
                    f0, f1 = hirq.field_of(a0), hirq.field_of(src["a"][1])
                    okk = bool(f0) and bool(f1) and f0[1] == "send_id" and f1[1] == "send_id_expr"
            okr = root_local(par["r"], ca) == ca.params[1]["b"] and global_field_expr(par["r"], "delayed_send")
            ctx.ob("R16.3", site_key(ca, "cancel removes the evaluated sendid from the executing session's table"), okk and okr, line_of(par),
                   "key is the value of sendid/sendidexpr: %s; table is get_global!(datamodel).delayed_send: %s" % (okk, okr))
        # closure remove
        for fn, n, par in sites.get((EXEC, True, "remove"), []):
            okk = some_of(ex, par["a"][0]) == sidb
            rl = root_local(par["r"])
            d = hirq.single_def(ex, rl) if rl is not None else None
            x = peel(d, {"clone"}) if d is not None else {}
            okr = x.get("k") == "mcall" and x["m"] in ("global", "global_s") and local_of(x["r"], NO_T) == dmb
            cl = hirq.enclosing_closure(ex, n)
            call = hirq.enclosing_call_of_closure(ex, cl)
            oks = call is not None and is_call(call, "fsm::Fsm::schedule")
            ctx.ob("R16.3", site_key(ex, "timer closure removes its own id from its own session's table"), okk and okr and oks, line_of(par),
                   "key is the send's own id: %s; table belongs to a clone of datamodel.global_s(): %s; closure is the schedule callback: %s" % (okk, okr, oks))
            # the entry is forgotten BEFORE the event is handed to the I/O processor: once the event is out, the receiving session may
            # execute a new delayed <send> with the same id, and a later remove would drop (= cancel) that new guard
            if cl is not None:
                idx = hirq.order_index(ex)
                sends = [c for c in hirq.walk(cl["body"]) if c.get("k") == "mcall" and (c.get("p") or "").endswith("EventIOProcessor::send")]
                okorder = bool(sends) and all(idx[id(par)] < idx[id(s)] for s in sends)
                ctx.ob("R16.3", site_key(ex, "timer closure forgets its guard before it sends"), okorder, line_of(par),
                       "delayed_send.remove %s the processor send in the timer callback (%d send call(s))" % ("precedes" if okorder else "does NOT precede", len(sends)))
        # insert
        for fn, n, par in sites.get((EXEC, False, "insert"), []):
            okk = some_of(ex, par["a"][0]) == sidb
            gsrc = some_of(ex, par["a"][1])
            d = hirq.single_def(ex, gsrc) if gsrc is not None else None
            okv = d is not None and is_call(peel(d, NO_T), "fsm::Fsm::schedule")
            okr = root_local(par["r"], ex) == dmb and global_field_expr(par["r"], "delayed_send")
            ctx.ob("R16.3", site_key(ex, "insert(sendid of the event, guard returned by schedule) into the own table"), okk and okv and okr, line_of(par),
                   "key is the id the event carries: %s; value is the schedule guard: %s; table is datamodel.global()'s: %s" % (okk, okv, okr))
            # D23: replacing a live guard drops (= cancels) it
            up = ex.parent(par)
            discarded = up is not None and (up.get("k") == "block" or (up.get("k") == "let" and up["pat"].get("k") == "wild"))
            ga = hirq.guard_atoms(ex, par)
            fresh = any(isinstance(a, dict) and a.get("k") == "mcall" and a["m"] == "contains_key" and pol is False and global_field_expr(a["r"], "delayed_send")
                        for a, pol in ga if pol is not None)
            mir_drop = False
            for bi, t in ex.mir_calls("HashMap::insert"):
                if GUARD_TY in t.get("dty", "") and t.get("t") is not None:
                    nt = ex.blocks[t["t"]]["t"]
                    if nt["k"] == "drop" and nt["p"] == t["d"]:
                        mir_drop = True
            ok = fresh or not (discarded or mir_drop)
            ctx.ob("R16.3", site_key(ex, "delayed_send.insert replaces no pending guard"), ok, line_of(par),
                   "previous entry returned by insert is dropped at once (HIR: result discarded %s, MIR: drop of the returned Option<Guard> %s) and the "
                   "insert is not guarded by !contains_key: a second delayed send with the same id silently cancels the first" % (discarded, mir_drop)
                   if not ok else "insert cannot drop a pending guard (guarded by !contains_key: %s)" % fresh)
    ctx.guard("R16.3", r3)

    # ------------------------------------------------------------------------------------------ R16.4
    ctx.rule("R16.4", "the timer branch is taken iff delay_ms > 0: schedule only for a positive delay, the immediate Datamodel::send only for 0; a "
                      "negative delay and a positive delay to #_internal deliver nothing and raise error.execution; Fsm::schedule arms the "
                      "timer with exactly delay_ms milliseconds under the same condition")

    def r4():
        sites = [c for fn, c in schedule_sites() if fn is ex]
        imm = ex.calls("datamodel::Datamodel::send")
        ctx.exact("R16.4", "schedule sites in SendParameters::execute", len(sites), 1)
        ctx.exact("R16.4", "immediate send sites in SendParameters::execute", len(imm), 1)
        sc = sites[0]
        delay_b = local_of(sc["a"][0], NO_T)
        if delay_b is None:
            raise AnchorMissing("the delay argument of schedule is not a local")
        # the local holding the evaluated target (the one locked for the #_internal comparison and passed to send)
        tgt_b = None
        o = hirq.origin(ex, imm[0]["a"][1])
        if o.get("from") in ("expr",):
            tgt_b = local_of(o["expr"])
        if tgt_b is None:
            tgt_b = local_of(imm[0]["a"][1])
        INTERNAL = F.const_value("event_io_processor::scxml_event_io_processor::SCXML_TARGET_INTERNAL")
        errs = ex.calls("datamodel::Datamodel::internal_error_execution_for_event")

        def hook(n, pe):
            if n.get("k") == "mcall" and n["m"] in ("lock", "unwrap") and not n["a"]:
                v = pe.ev(n["r"])
                if isinstance(v, str):
                    return v
            return NOHOOK

        def reach(node, delay, target):
            return PE(F, ex, {delay_b: delay, tgt_b: target}, hook).reach(node)
        rows = [(5, "#_scxml_1", "timer"), (1, "", "timer"), (0, "#_scxml_1", "now"), (0, INTERNAL, "now"), (-1, "#_scxml_1", "error"), (3, INTERNAL, "error")]
        for delay, target, want in rows:
            rs, ri = reach(sc, delay, target), reach(imm[0], delay, target)
            er = [e for e in errs if reach(e, delay, target) is True and hirq.diverges(ex.parent(e)) if ex.parent(e).get("k") == "block"]
            if want == "timer":
                ok = rs is not False and ri is False
            elif want == "now":
                ok = rs is False and ri is True
            else:
                ok = rs is False and ri is False and len(er) >= 1
            ctx.ob("R16.4", site_key(ex, "delay %d, target '%s' -> %s" % (delay, target, want)), ok, line_of(sc),
                   "schedule reachable: %s, immediate send reachable: %s, error.execution + return on the way: %d" % (rs, ri, len(er)))
        # the delay value comes from delayexpr (parsed) or the delay attribute
        d = hirq.single_def(ex, delay_b)
        srcs = set()
        if d is not None:
            for n in hirq.walk(d):
                if is_call(n, "executable_content::parse_duration_to_milliseconds"):
                    srcs.add("parse(delayexpr)")
                f = hirq.field_of(n, NO_T) if n.get("k") == "field" else None
                if f and f[1] == "delay_ms" and local_of(f[0], NO_T) == ex.params[0]["b"]:
                    srcs.add("self.delay_ms")
        ctx.ob("R16.4", site_key(ex, "delay is the evaluated delayexpr or the delay attribute"), srcs == {"parse(delayexpr)", "self.delay_ms"}, line_of(sc),
               "delay local defined from %s" % sorted(srcs))
        fs = F.fn("fsm::Fsm::schedule")
        sw = fs.calls("timer::Timer::schedule_with_delay")
        ctx.exact("R16.4", "schedule_with_delay sites in Fsm::schedule", len(sw), 1)
        for c in sw:
            pb = fs.params[1]["b"]
            okg = PE(F, fs, {pb: 1}).reach(c) is True and PE(F, fs, {pb: 250}).reach(c) is True and \
                PE(F, fs, {pb: 0}).reach(c) is False and PE(F, fs, {pb: -5}).reach(c) is False
            dur = hirq.resolve(fs, c["a"][0], NO_T)
            okd = dur.get("k") == "call" and (dur.get("p") or "").endswith("::milliseconds") and param_index(fs, dur["a"][0]) == 1
            okc = param_index(fs, c["a"][1]) == 2
            ctx.ob("R16.4", site_key(fs, "schedule_with_delay(milliseconds(delay_ms), cb) iff delay_ms > 0"), okg and okd and okc, line_of(c),
                   "guard is delay_ms > 0: %s; duration is milliseconds(delay_ms): %s; callback is the parameter: %s" % (okg, okd, okc))
    ctx.guard("R16.4", r4)

    # ------------------------------------------------------------------------------------------ R16.5
    ctx.rule("R16.5", "unit table of parse_duration_to_milliseconds: d 86 400 000, h 3 600 000, m 60 000, s 1 000, ms 1 (lower and upper case), "
                      "any other unit yields -1, the empty string 0; the result is the rounded product")

    def r5():
        fn = F.fn("executable_content::parse_duration_to_milliseconds")
        ms = [m for m in fn.nodes("match") if any(p.get("k") == "plit" and "Str(" in p["v"] for a in m["arms"] for p in _pats(a["pat"]))]
        ctx.exact("R16.5", "unit matches in parse_duration_to_milliseconds", len(ms), 1)
        m = ms[0]
        assigned = {local_of(a["l"], NO_T) for a in hirq.walk(m) if a.get("k") in ("assign", "assignop")} - {None}
        if len(assigned) != 1:
            raise AnchorMissing("unit match does not scale exactly one local")
        vb = assigned.pop()
        # the scaled local is the parsed number and becomes the (rounded) result
        d = fn.bindings()[vb].get("init")

        def reads_number(e, depth=3):
            if e is None or depth < 0:
                return False
            for n in hirq.walk(e):
                if n.get("k") == "mcall" and n["m"] == "next_number":
                    return True
                b = local_of(n, NO_T) if n.get("k") == "path" else None
                if b is not None and b != vb:
                    info = fn.bindings().get(b) or {}
                    # `let x = e;` or the payload of a pattern: `let Ok(x) = e else ..`, `if let Ok(x) = e`, `match e { Ok(x) => .. }`
                    src = hirq.single_def(fn, b) or info.get("init") or info.get("scrutinee")
                    if reads_number(src, depth - 1):
                        return True
            return False
        from_number = reads_number(d) and len([a for a in fn.assignments_to(vb) if not any(x is m for x in fn.ancestors(a))]) == 0
        blk = [a for a in fn.ancestors(m) if a.get("k") == "block"][0]
        tail = blk.get("tail")
        rounded = tail is not None and any(n.get("k") == "mcall" and n["m"] == "round" and local_of(n["r"], NO_T) == vb for n in hirq.walk(tail))
        ctx.ob("R16.5", site_key(fn, "scaled value is the parsed number, result is its rounding"), bool(from_number) and rounded, line_of(m),
               "value from next_number(): %s; result is v.round(): %s" % (bool(from_number), rounded))

        def factor(unit):
            pe = PE(F, fn, {vb: 1.0})
            arm, binds = pe.select_arm(m, unit)
            if arm is None:
                return UNK
            try:
                pe.ev(arm["body"])
            except Ret as r:
                return ("ret", r.value)
            return pe.env.get(vb, UNK)
        for u, want in sorted(UNITS.items()):
            for sp in (u, u.upper()):
                got = factor(sp)
                ctx.ob("R16.5", site_key(fn, "unit `%s`" % sp), known(got) and got == want, line_of(m), "1%s = %s ms, expected %s" % (sp, got, want))
        for sp in ("x", "min", "sec", "hours", "msec"):
            got = factor(sp)
            ctx.ob("R16.5", site_key(fn, "unknown unit `%s` is rejected" % sp), got == ("ret", -1), line_of(m), "1%s -> %s, expected return -1" % (sp, got))
        empty = PE(F, fn, {fn.params[0]["b"]: ""}).run()
        ctx.ob("R16.5", site_key(fn, "empty delay is 0"), empty == 0, fn.where, "parse_duration_to_milliseconds(\"\") = %s" % (empty,))

    def _pats(p):
        out = [p]
        for x in p.get("a", []) or []:
            out.extend(_pats(x))
        return out
    ctx.guard("R16.5", r5)

    # ------------------------------------------------------------------------------------------ R16.6
    ctx.rule("R16.6", "the timer::Timer lives only in the field Fsm.timer: created once in Fsm::new, used only by reference as the receiver of "
                      "schedule_with_delay in Fsm::schedule, never moved out, cloned, returned or taken as a parameter - so it is dropped with the session's Fsm")

    def r6():
        holders = [(t["p"], f[0]) for t in F.types.values() for v in t.get("variants", []) for f in v["f"] if "timer::Timer" in f[1]]
        ctx.ob("R16.6", "types|only Fsm.timer holds a Timer", holders == [("fsm::Fsm", "timer")], "", "fields of type timer::Timer: %s" % holders)
        uses = field_uses(F, "Fsm", "timer")
        ctx.floor("R16.6", "uses of Fsm.timer", len(uses), 1)
        cnt = {}
        for fn, n in uses:
            c = classify_field_use(fn, n)
            par = c[2] if len(c) > 2 else None
            ok = c[0] == "call" and c[1] == "schedule_with_delay" and fn.path == "fsm::Fsm::schedule" and not par.get("rty", "").startswith("&mut")
            i = cnt.get(fn.path, 0)
            cnt[fn.path] = i + 1
            ctx.ob("R16.6", site_key(fn, "Fsm.timer used only as &self.timer.schedule_with_delay(..)", i), ok, line_of(n), "use: %s %s" % (c[0], c[1] if len(c) > 1 else ""))
        news = [(fn, c) for fn in F.fn_list if fn.hir is not None for c in fn.calls("timer::Timer::new")]
        ctx.exact("R16.6", "Timer::new sites", len(news), 1)
        for fn, c in news:
            par = fn.parent(c)
            ok = fn.path == "fsm::Fsm::new" and par is not None and par.get("k") == "struct" and par["r"].get("p") == "fsm::Fsm" and \
                any(name == "timer" and e is c for name, e in par["f"])
            ctx.ob("R16.6", site_key(fn, "Timer::new() initialises Fsm.timer"), ok, line_of(c), "created in %s as field initialiser: %s" % (fn.path, ok))
        sigs = [fn.path for fn in F.fn_list if fn.sig and ("timer::Timer" in str(fn.sig.get("in", "")) or "timer::Timer" in str(fn.sig.get("out", "")))]
        ctx.ob("R16.6", "signatures|no function takes or returns a Timer", not sigs, "", "functions with a Timer in their signature: %s" % (sigs or "none"))
        moved = [fn.path for fn in F.fn_list if any(holds_mv_of(b, ".timer#fsm::Fsm") for b in fn.blocks)]
        ctx.ob("R16.6", "mir|Fsm.timer is never moved out of its Fsm", not moved, "", "functions moving `.timer` out of an Fsm: %s" % (moved or "none"))
        tl = [(fn.path, l["ty"]) for fn in F.fn_list for l in fn.locals if "timer::Timer" in l["ty"] and not l["ty"].startswith("&") and fn.path != "fsm::Fsm::new"]
        ctx.ob("R16.6", "mir|no owned Timer local outside Fsm::new", not tl, "", "owned Timer locals: %s" % (tl or "none"))
    ctx.guard("R16.6", r6)
