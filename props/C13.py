"""C13 — concurrent external events are each processed exactly once, in sender order, without overlap.

Decided (structure only): one consumer of the external queue; the channel and its receiver never leave the session; the only way
an event is discarded in the dequeue filter is the cancelled-child rule; the algorithm procedures run on the session thread only
(so two macrosteps cannot overlap); the blocking wait holds nothing but the receiver lock, which no producer needs.
Not decided (assumed): per-sender FIFO and exactly-once delivery of std::sync::mpsc; everything quantifying over interleavings.
"""
from common import *
import hirq
from locks import LockAnalysis
import C17

ALG = ["interpret", "mainEventLoop", "exitInterpreter", "selectEventlessTransitions", "selectTransitions", "removeConflictingTransitions",
       "microstep", "exitStates", "enterStates", "computeExitSet", "computeEntrySet", "executeTransitionContent", "executeContent",
       "invoke", "cancelInvoke", "returnDoneEvent", "conditionMatch", "enqueue_internal"]


def terminal_leaves(n):
    """Leaves in tail position of a statement / expression (an absent else is the leaf {'k':'empty-else', 'of': if-node})."""
    k = n.get("k")
    if set(macros_of(n)) & {"debug", "info", "warn", "error", "trace", "log"}:
        return [n]   # the expansion of a logging macro (`if enabled { .. }`) is one leaf, whatever the feature set
    if k == "block":
        seq = list(n["st"]) + ([n["tail"]] if "tail" in n else [])
        if not seq:
            return [n]
        return terminal_leaves(seq[-1])
    if k == "if":
        out = terminal_leaves(n["t"])
        if "e" in n:
            out += terminal_leaves(n["e"])
        else:
            out.append({"k": "empty-else", "of": n})
        return out
    if k == "match":
        out = []
        for a in n["arms"]:
            out += terminal_leaves(a["body"])
        return out
    return [n]


def run(ctx):
    F = ctx.facts
    ctx.explanation = ("C13: single consumer and ownership of the external queue, the dequeue filter's only discarding path, thread-role "
                       "confinement of the W3C procedures, lock set at the blocking wait")
    ctx.assumptions += ["std::sync::mpsc delivers every sent value exactly once and preserves each sender's order",
                        "one session thread per session (C17 thread roles)"]
    mel = F.fn("fsm::Fsm::mainEventLoop")

    # ---------------------------------------------------------------- R13.1
    ctx.rule("R13.1", "the external queue has one consumer: Receiver::recv* is called only in Fsm::mainEventLoop (and in BlockingQueue::dequeue, which "
                      "has no caller); the event channel is created only in BlockingQueue::new; the receiver field is read only by those two")

    def r1():
        sites = []
        for fn in F.fn_list:
            for bi, t in fn.mir_calls():
                if "mpsc::Receiver" in t["f"] and t["f"].split("::")[-1].startswith(("recv", "try_recv", "iter", "try_iter")):
                    ev = "fsm::Event" in " ".join(t.get("targs", []) + t.get("argtys", [])) or "<T>" in t["f"] and fn.path.startswith("fsm::BlockingQueue")
                    if ev or fn.path.startswith("fsm::"):
                        sites.append((fn, t))
        allowed = {"fsm::Fsm::mainEventLoop", "fsm::BlockingQueue::<T>::dequeue"}
        for fn, t in sites:
            ctx.ob("R13.1", "recv|%s" % fn.path, fn.path in allowed, "%s:%d" % (t["s"][6], t["s"][3]), "%s receives from an event queue" % fn.path)
        ctx.floor("R13.1", "recv sites on the event queue", len(sites), 2)
        callers = [c for c, e in F.callgraph.callers_of("fsm::BlockingQueue::dequeue")]
        ctx.ob("R13.1", "BlockingQueue::dequeue has no caller", not callers, "", "callers: %s" % callers)
        chans = []
        for fn in F.fn_list:
            for bi, t in fn.mir_calls("mpsc::channel"):
                if fn.path.startswith("test::") or fn.path.startswith("tracer::") or fn.path.startswith("remote_tracer::"):
                    continue
                chans.append((fn, t))
        for fn, t in chans:
            ctx.ob("R13.1", "channel|%s" % fn.path, fn.path == "fsm::BlockingQueue::<T>::new", "%s:%d" % (t["s"][6], t["s"][3]), "%s creates a channel" % fn.path)
        ctx.floor("R13.1", "channel creation sites", len(chans), 1)
        uses = field_uses(F, "BlockingQueue", "receiver")
        for fn, n in uses:
            owner = fn.path
            ok = owner in ("fsm::Fsm::mainEventLoop", "fsm::BlockingQueue::<T>::dequeue", "fsm::BlockingQueue::<T>::new") or fn.trait == "std::fmt::Debug"
            ctx.ob("R13.1", "receiver field|%s" % owner, ok, line_of(n), "%s touches BlockingQueue.receiver" % owner)
        ctx.floor("R13.1", "uses of BlockingQueue.receiver", len(uses), 2)
    ctx.guard("R13.1", r1)

    # ---------------------------------------------------------------- R13.2
    ctx.rule("R13.2", "in the dequeue loop of mainEventLoop an event is discarded only when it carries an invoke id that differs from the caller's, "
                      "is not a done.invoke.* event and names no entry of child_sessions; every other path leaves the loop with the event")

    def r2():
        recvs = [c for c in mel.calls("mpsc::Receiver::recv")]
        ctx.exact("R13.2", "recv in mainEventLoop", len(recvs), 1)
        rc = recvs[0]
        loops = [l for l in hirq.enclosing_loops(mel, rc) if l.get("k") == "loop"]
        ctx.ob("R13.2", site_key(mel, "recv sits in its own dequeue loop"), bool(loops), line_of(rc), "enclosing plain loop found: %s" % bool(loops))
        lp = loops[0]
        body = lp["body"]
        leaves = terminal_leaves(body)
        n_drop = 0
        for i, lf in enumerate(leaves):
            if lf.get("k") != "empty-else" and hirq.diverges(lf):
                continue
            anchor = lf["of"]["t"] if lf.get("k") == "empty-else" else lf
            # conditions between the leaf and the loop
            ats = []
            for g in hirq.guards(mel, anchor):
                if g["node"] is lp or any(x is g["node"] for x in mel.ancestors(lp)):
                    break
                ats.append(g)
            if lf.get("k") == "empty-else":
                # the leaf is the *else* of lf["of"]: flip it
                ats = [dict(g) for g in ats if g["node"] is not lf["of"]] + [{"cond": lf["of"]["c"], "pol": False, "how": "else", "node": lf["of"]}]
            n_drop += 1
            def _some_invoke(g):
                c = g["cond"]
                if g["how"] == "then" and c.get("k") == "letx":
                    return "invoke_id" in describe(c["init"]) and "Some" in str(c["pat"].get("r", {}).get("p", ""))
                if g["how"] == "arm":
                    return "invoke_id" in describe(c) and "Some" in str(g["pat"].get("r", {}).get("p", ""))
                return False
            has_invoke = any(_some_invoke(g) for g in ats)
            ne_caller = False
            not_child = False
            for g in ats:
                if g["pol"] is None:
                    continue
                for a, pol in hirq.atoms(g["cond"], g["pol"]):
                    d = describe(a)
                    if pol and a.get("k") == "mcall" and a["m"] == "ne" and "caller_invoke_id" in d:
                        ne_caller = True
                    if pol is False and a.get("k") == "mcall" and a["m"] == "contains_key" and "child_sessions" in d:
                        not_child = True
            # done.invoke.* leaves earlier: an early `if name.starts_with(EVENT_DONE_INVOKE_PREFIX) { ...; break }`
            early = False
            for g in hirq.guards(mel, anchor):
                if g["how"] == "early-exit" and "starts_with" in describe(g["cond"]) and "EVENT_DONE_INVOKE_PREFIX" in describe(g["cond"]):
                    early = True
            ok = has_invoke and ne_caller and not_child and early
            ctx.ob("R13.2", site_key(mel, "discarding path", n_drop), ok, line_of(anchor),
                   "falls through to the next recv under: invoke id present=%s, differs from caller's=%s, not in child_sessions=%s, not done.invoke=%s" % (
                       has_invoke, ne_caller, not_child, early))
        ctx.exact("R13.2", "discarding paths in the dequeue loop", n_drop, 1)
    ctx.guard("R13.2", r2)

    # ---------------------------------------------------------------- R13.3
    ctx.rule("R13.3", "the W3C procedures of Fsm are reachable from the session-thread root only, not from the timer closure, the HTTP handlers, "
                      "tokio tasks or the host API (so the macrosteps of two events cannot overlap)")

    def r3():
        L = LockAnalysis(F)
        roots = C17.role_roots(F)
        role_fns = L.roles(roots)
        ctx.floor("R13.3", "thread roles", len(role_fns), 3)
        sess = role_fns.get("session", set())
        for a in ALG:
            p = "fsm::Fsm::" + a
            if a == "executeTransitionContent" and not F.has_fn(p):
                continue   # the three-line procedure inlined into microstep (C02 R02.5 checks the inlined loop)
            ctx.ob("R13.3", "session role reaches %s" % a, p in sess, "", "%s reachable from the session thread closure: %s" % (p, p in sess))
        for role, fs in sorted(role_fns.items()):
            if role == "session":
                continue
            bad = sorted(x for x in fs if any(F.callgraph.body_of.get(x, x) == "fsm::Fsm::" + a for a in ALG))
            ctx.ob("R13.3", "role %s runs no W3C procedure" % role.split("::")[-1], not bad, "", "role %s (%d functions) reaches: %s" % (role, len(fs), bad[:4]))

        # ------------------------------------------------------------ R13.4
        fl = L.flow[mel.path]
        blocks = [b for b, t in mel.mir_calls("mpsc::Receiver::recv")]
        for b in blocks:
            held = fl.held_classes_at_call(b)
            ctx.ob("R13.4", site_key(mel, "lock set at the blocking recv"), held == {"R"}, "%s:%d" % (mel.blocks[b]["t"]["s"][6], mel.blocks[b]["t"]["s"][3]),
                   "held while blocked: %s" % sorted(held))
        racq = sorted({f for f, lst in L.direct.items() for d in lst if d[0] == "R"})
        ok = set(racq) <= {"fsm::Fsm::mainEventLoop", "fsm::BlockingQueue::<T>::dequeue"}
        ctx.ob("R13.4", "receiver lock taken only by the consumer", ok, "", "functions locking the receiver: %s" % racq)
        # producers: every Sender::send call site holds no R
        n = 0
        for fn in F.fn_list:
            for b, t in fn.mir_calls("mpsc::Sender::<T>::send"):
                n += 1
                held = L.flow[fn.path].held_classes_at_call(b)
                ctx.ob("R13.4", "producer|%s|%d" % (fn.path, n), "R" not in held, "%s:%d" % (t["s"][6], t["s"][3]), "Sender::send with %s held" % sorted(held))
        ctx.floor("R13.4", "Sender::send call sites", n, 4)

        # ------------------------------------------------------------ R13.5
        # exactly once: a producer never gives up on delivery because of contention. In everything reachable from the functions that
        # contain a Sender::send (the delivery functions) and from their callers up to the send entry points, platform locks
        # (every class but the value lock V, where try_lock is the recursion guard of to_string) are taken with lock(), never try_lock,
        # and the channel is written with send(), never try_send / send_timeout.
        cg = F.callgraph
        entry = {p for p in cg.local if any(cg.body_of.get(p, p).endswith(s) for s in (
            "FsmExecutor::send_to_session", "FsmExecutor::get_session_sender", "EventIOProcessor>::send", "ScxmlEventIOProcessor::send_to_session",
            "BlockingQueue::<T>::enqueue", "datamodel::Datamodel::send"))}
        ctx.floor("R13.5", "delivery entry functions", len({cg.body_of.get(p, p) for p in entry}), 5)
        region = {cg.body_of.get(p, p) for p in cg.reachable(entry)}
        bad = []
        n_lock = 0
        for f in sorted(region):
            for c, m, bi, s, _h in L.direct.get(f, ()):
                if c == "V":
                    continue
                n_lock += 1
                if m != "block":
                    bad.append("%s takes %s with try_lock at %s:%d" % (f, c, s[6], s[3]))
            fn2 = F.fns.get(f)
            if fn2 is not None:
                for b, t in fn2.mir_calls():
                    if any(x in t["f"] for x in ("mpsc::Sender::<T>::try_send", "mpsc::SyncSender::<T>::try_send", "send_timeout")):
                        bad.append("%s calls %s at %s:%d" % (f, t["f"], t["s"][6], t["s"][3]))
        ctx.floor("R13.5", "platform lock acquisitions on the delivery path", n_lock, 3)
        ctx.ob("R13.5", "delivery path waits for its locks and its channel", not bad, "", "; ".join(bad) or
               "%d functions, %d platform lock acquisitions, all blocking" % (len(region), n_lock))
    ctx.rule("R13.5", "a producer never drops an event because of contention: on the delivery path (FsmExecutor::send_to_session / "
                      "get_session_sender, the EventIOProcessor::send implementations, BlockingQueue::enqueue, Datamodel::send and all they "
                      "reach) every platform lock is taken with lock() - never try_lock - and the channel is written with send()")
    ctx.rule("R13.4", "the consumer holds exactly the receiver lock while blocked in recv, and no producer needs that lock to send")
    ctx.guard("R13.3", r3)
