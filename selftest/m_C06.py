"""C06 self-test: mutants (must be caught by the named rule) and benign refactors (must stay silent).
No test of the pinned suite uses <history>, so every mutant leaves the 57 tests green."""
from mlib import new

ALL, M, B = new("C06")
FSM = "src/fsm.rs"

# ------------------------------------------------------------------------------------------ mutants
M("c06-deep-shallow-swapped", "R06.2",
  (FSM, "                if h.history_type == HistoryType::Deep {", "                if h.history_type != HistoryType::Deep {"))
M("c06-recorded-after-exit", "R06.1",
  (FSM, "        get_global!(datamodel).historyValue.put_all(&ahistory);\n\n        for sid in statesToExitSorted.iterator() {\n            // Use the document-id",
        "        for sid in statesToExitSorted.iterator() {\n            // Use the document-id"),
  (FSM, "            get_global!(datamodel).configuration.delete(sid)\n        }\n",
        "            get_global!(datamodel).configuration.delete(sid)\n        }\n        get_global!(datamodel).historyValue.put_all(&ahistory);\n"))
M("c06-keyed-by-parent", "R06.2",
  (FSM, "                    ahistory.put(h.id, fl);", "                    ahistory.put(s.id, fl);"))
M("c06-shallow-compares-history-state", "R06.2",
  (FSM, ".filter_by(&|s0| -> bool { self.get_state_by_id(*s0).parent == s.id })", ".filter_by(&|s0| -> bool { self.get_state_by_id(*s0).parent == h.id })"))
M("c06-deep-records-compound-states", "R06.2",
  (FSM, ".filter_by(&|s0| -> bool { self.isAtomicState(s0) && self.isDescendant(s0.id, s.id) }),",
        ".filter_by(&|s0| -> bool { self.isDescendant(s0.id, s.id) }),"))
M("c06-deep-descendant-args-swapped", "R06.2",
  (FSM, "self.isAtomicState(s0) && self.isDescendant(s0.id, s.id)", "self.isAtomicState(s0) && self.isDescendant(s.id, s0.id)"))
M("c06-default-content-also-when-recorded", "R06.3",
  (FSM, "                let mut stateIds: Vec<StateId> = Vec::new();\n                for s in get_global!(datamodel).historyValue.get(sid).iterator() {",
        "                let mut stateIds: Vec<StateId> = Vec::new();\n                defaultHistoryContent.put(state.parent, &self.get_transition_by_id(*state.transitions.head()).content);\n"
        "                for s in get_global!(datamodel).historyValue.get(sid).iterator() {"))
M("c06-restored-ancestors-stop-at-history-state", "R06.3",
  (FSM, "                        *s,\n                        state.parent,\n", "                        *s,\n                        sid,\n"))
M("c06-default-content-keyed-by-history-state", "R06.3",
  (FSM, "defaultHistoryContent.put(state.parent, &defaultTransition.content);", "defaultHistoryContent.put(sid, &defaultTransition.content);"))
M("c06-effective-targets-keep-history-state", "R06.3",
  (FSM, "                    targets.union(get_global!(datamodel).historyValue.get(*sid));", "                    targets.add(*sid);"))
M("c06-history-default-before-onentry", "R06.4",
  (FSM, "                exe.extend_from_slice(state_s.onentry.as_slice());\n",
        "                if defaultHistoryContent.has(*s) {\n                    exe.push(*defaultHistoryContent.get(*s));\n                }\n"
        "                exe.extend_from_slice(state_s.onentry.as_slice());\n"),
  (FSM, "                if defaultHistoryContent.has(*s) {\n                    exe.push(*defaultHistoryContent.get(*s));\n                }\n            }\n", "            }\n"))
M("c06-initial-content-without-default-entry", "R06.4",
  (FSM, "if statesForDefaultEntry.isMember(s) && state_s.initial > 0 {", "if state_s.initial > 0 {"))
M("c06-history-cleared-on-cancel-invoke", "R06.5",
  (FSM, "        get_global!(datamodel).child_sessions.remove(invoke_id);\n        datamodel.send(",
        "        get_global!(datamodel).child_sessions.remove(invoke_id);\n        get_global!(datamodel).historyValue.clear();\n        datamodel.send("))
M("c06-shallow-snapshot-after-exit", "R06.",
  (FSM, "        get_global!(datamodel).historyValue.put_all(&ahistory);\n\n        for sid in statesToExitSorted.iterator() {\n            // Use the document-id",
        "        for sid in statesToExitSorted.iterator() {\n            // Use the document-id"),
  (FSM, "            get_global!(datamodel).configuration.delete(sid)\n        }\n",
        "            get_global!(datamodel).configuration.delete(sid);\n            get_global!(datamodel).historyValue.put_all(&ahistory);\n        }\n"))

# ------------------------------------------------------------------------------------------ benign refactors
B("c06-benign-rename-locals",
  (FSM, "            for hid in s.history.iterator() {\n                let h = self.get_state_by_id(*hid);\n                if h.history_type == HistoryType::Deep {",
        "            for history_id in s.history.iterator() {\n                let h = self.get_state_by_id(*history_id);\n                if h.history_type == HistoryType::Deep {"),
  (FSM, ".filter_by(&|s0| -> bool { self.get_state_by_id(*s0).parent == s.id })", ".filter_by(&|active| -> bool { self.get_state_by_id(*active).parent == s.id })"))
B("c06-benign-hoist-key",
  (FSM, "                    ahistory.put(h.id, fl);", "                    let key = h.id;\n                    ahistory.put(key, fl);"))
B("c06-benign-trace-and-reorder",
  (FSM, "        let mut ahistory: HashTable<StateId, OrderedSet<StateId>> = HashTable::new();\n\n        let configStateList = self.set_to_state_list(&get_global!(datamodel).configuration);\n",
        "        let configStateList = self.set_to_state_list(&get_global!(datamodel).configuration);\n        debug!(\"recording history\");\n"
        "        let mut ahistory: HashTable<StateId, OrderedSet<StateId>> = HashTable::new();\n"))
B("c06-benign-hoist-history-parent",
  (FSM, "        let state = self.get_state_by_id(sid);\n        if self.isHistoryState(sid) {\n            if get_global!(datamodel).historyValue.has(sid) {",
        "        let state = self.get_state_by_id(sid);\n        if self.isHistoryState(sid) {\n            let recorded = get_global!(datamodel).historyValue.has(sid);\n            if recorded {"))
B("c06-benign-if-else-swapped",
  (FSM, "                if defaultHistoryContent.has(*s) {\n                    exe.push(*defaultHistoryContent.get(*s));\n                }\n",
        "                if !defaultHistoryContent.has(*s) {\n                } else {\n                    exe.push(*defaultHistoryContent.get(*s));\n                }\n"))
B("c06-benign-two-content-lists",
  (FSM, "                if statesForDefaultEntry.isMember(s) && state_s.initial > 0 {\n                    exe.push(self.get_transition_by_id(state_s.initial).content);\n                }\n"
        "                if defaultHistoryContent.has(*s) {\n                    exe.push(*defaultHistoryContent.get(*s));\n                }\n            }\n",
        "            }\n            for ct in exe {\n                if ct > 0 {\n                    self.executeContent(datamodel, ct);\n                }\n            }\n"
        "            let mut exe = Vec::new();\n            {\n                let entered: &State = self.get_state_by_id(*s);\n"
        "                if statesForDefaultEntry.isMember(s) && entered.initial > 0 {\n                    exe.push(self.get_transition_by_id(entered.initial).content);\n                }\n"
        "                if defaultHistoryContent.has(*s) {\n                    exe.push(*defaultHistoryContent.get(*s));\n                }\n            }\n"))
