"""C09 mutants (must be caught by the named rule) and benign refactors (must stay silent)."""
from mlib import new

ALL, M, B = new("C09")

DMOD = "src/datamodel/mod.rs"
RF = "src/datamodel/expression_engine.rs"
EJ = "src/datamodel/ecma_script.rs"
EX = "src/expression_engine/expressions.rs"
FSM = "src/fsm.rs"

# ---------------------------------------------------------------------------------------------- R09.1
M("c09-in-negated", "R09.1", (RF, "                        Some(state_id) => global.configuration.data.contains(state_id),",
                              "                        Some(state_id) => !global.configuration.data.contains(state_id),"))
M("c09-null-in-table-by-docid", "R09.1", (DMOD, "            self.state_name_to_id.insert(state.name.clone(), state.id);",
                                          "            self.state_name_to_id.insert(state.name.clone(), state.doc_id);"))
M("c09-in-table-compound-states-only", "R09.1", (RF, "            state_name_to_id.insert(state.name.clone(), state.id);",
                                                 "            if !state.states.is_empty() {\n                state_name_to_id.insert(state.name.clone(), state.id);\n            }"))
M("c09-ecma-in-true-when-absent", "R09.1", (EJ, "                        .contains(state_id)\n                    {\n                        return Ok(JsValue::Boolean(true));",
                                            "                        .contains(state_id)\n                    {\n                        return Ok(JsValue::Boolean(false));"))
# ---------------------------------------------------------------------------------------------- R09.2
M("c09-event-origin-from-origintype", "R09.2", (RF, "            EVENT_VARIABLE_FIELD_ORIGIN.to_string(),\n            create_data_arc(option_to_data_value(&event.origin)),",
                                                "            EVENT_VARIABLE_FIELD_ORIGIN.to_string(),\n            create_data_arc(option_to_data_value(&event.origin_type)),"))
M("c09-ecma-sendid-from-invokeid", "R09.2", (EJ, "            js_string!(EVENT_VARIABLE_FIELD_SEND_ID),\n            option_to_js_value(&event.sendid),",
                                             "            js_string!(EVENT_VARIABLE_FIELD_SEND_ID),\n            option_to_js_value(&event.invoke_id),"))
M("c09-event-data-field-dropped", "R09.2", (RF, "        event_props.insert(EVENT_VARIABLE_FIELD_DATA.to_string(), data_value);\n", "        let _ = data_value;\n"))
# ---------------------------------------------------------------------------------------------- R09.3
M("c09-ioprocessors-writable", "R09.3", (RF, "        data_arc.set_readonly(true);\n        self.set_arc(SYS_IO_PROCESSORS, data_arc, true);",
                                         "        data_arc.set_readonly(false);\n        self.set_arc(SYS_IO_PROCESSORS, data_arc, true);"))
M("c09-ecma-event-writable", "R09.3", (EJ, "                .writable(false)\n                .value(event_object),", "                .writable(true)\n                .value(event_object),"))
M("c09-ecma-event-name-field-writable", "R09.3", (EJ, "                js_string!(event.name.clone()),\n                Attribute::READONLY,",
                                                  "                js_string!(event.name.clone()),\n                Attribute::all(),"))
M("c09-set-undefined-overwrites-readonly", "R09.3", (DMOD, "                if old.get().is_readonly() {\n                    #[cfg(feature = \"Debug\")]\n                    debug!(\"Can't set read-only {}\", old.key());\n                } else {\n                    old.insert(data);\n                }",
                                                     "                old.insert(data);"))
M("c09-sessionid-through-writable-api", "R09.3", (FSM, "            datamodel.initialize_read_only(SESSION_ID_VARIABLE_NAME, Data::Integer(session_id as i64));",
                                                  "            datamodel.set(SESSION_ID_VARIABLE_NAME, Data::Integer(session_id as i64), true);"))
M("c09-direct-store-write", "R09.3", (RF, "                .set_undefined_arc(name.to_string(), data);\n        } else {",
                                      "                .map\n                .insert(name.to_string(), data);\n        } else {"))
M("c09-expression-assign-ignores-readonly", "R09.3", (EX, "                                if v.is_readonly() {\n                                    Err(format!(\"Can't set read-only {v}\"))\n                                } else {",
                                                      "                                if false {\n                                    Err(format!(\"Can't set read-only {v}\"))\n                                } else {"))
M("c09-event-arc-not-flagged", "R09.3", (RF, "        event_arc.set_readonly(true);\n", ""),
  (RF, "        let mut event_arc = create_data_arc(Data::Map(event_props));", "        let event_arc = create_data_arc(Data::Map(event_props));"))
# ---------------------------------------------------------------------------------------------- R09.4
M("c09-global-script-before-datamodel", "R09.4", (FSM, "        self.expandScxmlSource();\n        {\n            datamodel.clear();",
                                                  "        self.expandScxmlSource();\n        self.executeGlobalScriptElement(datamodel);\n        {\n            datamodel.clear();"),
  (FSM, "        }\n        self.executeGlobalScriptElement(datamodel);\n\n        let mut inital_states", "        }\n\n        let mut inital_states"))
M("c09-early-binding-inverted", "R09.4", (FSM, "                self.binding == BindingType::Early,\n", "                self.binding == BindingType::Late,\n"))
M("c09-children-never-bound", "R09.4", (FSM, "            self.initialize_data_models_recursive(datamodel, *child_state, set_data);",
                                        "            self.initialize_data_models_recursive(datamodel, *child_state, false);"))
M("c09-ioprocessors-after-enterstates", "R09.4", (FSM, "            datamodel.set_ioprocessors();\n\n            self.initialize_data_models_recursive(", "            self.initialize_data_models_recursive("),
  (FSM, "        self.enterStates(datamodel, &inital_states);\n        self.mainEventLoop(datamodel);", "        self.enterStates(datamodel, &inital_states);\n        datamodel.set_ioprocessors();\n        self.mainEventLoop(datamodel);"))
M("c09-undeclared-until-bound", "R09.4", (RF, "            } else {\n                self.set(name, Data::None(), true);\n            }", "            }"))
# ---------------------------------------------------------------------------------------------- R09.5
M("c09-late-binding-on-every-entry", "R09.5", (FSM, "                if binding == BindingType::Late && state_s.isFirstEntry {", "                if binding == BindingType::Late {"))
M("c09-first-entry-never-cleared", "R09.5", (FSM, "                    to_init = *s;\n                    state_s.isFirstEntry = false;", "                    to_init = *s;"))
M("c09-late-init-after-onentry", "R09.5", (FSM, "            if to_init != 0 {\n                datamodel.initializeDataModel(self, to_init, true);\n            }\n", ""),
  (FSM, "            for ct in exe {\n                if ct > 0 {\n                    self.executeContent(datamodel, ct);\n                }\n            }\n",
   "            for ct in exe {\n                if ct > 0 {\n                    self.executeContent(datamodel, ct);\n                }\n            }\n            if to_init != 0 {\n                datamodel.initializeDataModel(self, to_init, true);\n            }\n"))
M("c09-late-binding-declares-only", "R09.5", (FSM, "                datamodel.initializeDataModel(self, to_init, true);", "                datamodel.initializeDataModel(self, to_init, false);"))

# ---------------------------------------------------------------------------------------------- benign
B("c09-benign-rename-in-locals", (RF, "                        Some(state_id) => global.configuration.data.contains(state_id),",
                                  "                        Some(sid) => global.configuration.data.contains(sid),"))
B("c09-benign-hoist-event-name-value", (RF, "        event_props.insert(\n            EVENT_VARIABLE_FIELD_NAME.to_string(),\n            create_data_arc(Data::String(event.name.clone())),\n        );",
                                        "        let name_value = create_data_arc(Data::String(event.name.clone()));\n        event_props.insert(EVENT_VARIABLE_FIELD_NAME.to_string(), name_value);"))
B("c09-benign-reorder-independent-setup", (FSM, "            datamodel.add_functions(self);\n            datamodel.set_ioprocessors();", "            datamodel.set_ioprocessors();\n            datamodel.add_functions(self);"))
B("c09-benign-rename-late-init-flag", (FSM, "            let mut to_init: StateId = 0;", "            let mut late_state: StateId = 0;"),
  (FSM, "                    to_init = *s;", "                    late_state = *s;"),
  (FSM, "            if to_init != 0 {\n                datamodel.initializeDataModel(self, to_init, true);", "            if late_state != 0 {\n                datamodel.initializeDataModel(self, late_state, true);"))
B("c09-benign-trace-in-store", (DMOD, "                } else {\n                    old.insert(data);\n                }", "                } else {\n                    info!(\"replacing {}\", old.key());\n                    old.insert(data);\n                }"))
B("c09-benign-extract-in-lookup-helper", (RF, "impl Action for InAction {\n    fn execute(&self, arguments: &[Data], global: &GlobalData) -> Result<Data, String> {",
                                          "impl InAction {\n    fn lookup(&self, name: &str) -> Option<&StateId> {\n        self.state_name_to_id.get(name)\n    }\n}\n\nimpl Action for InAction {\n    fn execute(&self, arguments: &[Data], global: &GlobalData) -> Result<Data, String> {"),
  (RF, "                    let r = match self.state_name_to_id.get(state_name) {", "                    let r = match self.lookup(state_name) {"))
B("c09-benign-early-return-interpret-block", (FSM, "            let session_id = datamodel.global_s().lock().unwrap().session_id;\n            datamodel.initialize_read_only(SESSION_ID_VARIABLE_NAME, Data::Integer(session_id as i64));",
                                              "            let sid_value = Data::Integer(datamodel.global_s().lock().unwrap().session_id as i64);\n            datamodel.initialize_read_only(SESSION_ID_VARIABLE_NAME, sid_value);"))
