"""C04 self-test: mutants of the reader's structural slice and benign refactors."""
from mlib import new

ALL, M, B = new("C04")
RD = "src/scxml_reader.rs"

LIST6 = """            &[
                TAG_TRANSITION,
                TAG_ON_EXIT,
                TAG_ON_ENTRY,
                TAG_IF,
                TAG_FOR_EACH,
                TAG_FINALIZE,
            ],"""
LIST5 = """            &[
                TAG_TRANSITION,
                TAG_ON_EXIT,
                TAG_ON_ENTRY,
                TAG_IF,
                TAG_FOR_EACH,
            ],"""

# ---------------------------------------------------------------------------------------------- R04.1
M("c04-else-dispatched-to-elseif", "R04.1", (RD, "            TAG_ELSE => {\n                self.start_else(attr);", "            TAG_ELSE => {\n                self.start_else_if(attr);"))
M("c04-foreach-region-not-stacked", "R04.1", (RD, "self.start_executable_content_region(true, TAG_FOR_EACH)", "self.start_executable_content_region(false, TAG_FOR_EACH)"))
M("c04-foreach-end-arm-dropped", "R04.1", (RD, "            TAG_FOR_EACH => {\n                self.end_for_each();\n            }\n", ""))
M("c04-else-reopens-with-own-tag", "R04.1", (RD, "let else_id = self.start_executable_content_region(true, TAG_IF);", "let else_id = self.start_executable_content_region(true, TAG_ELSE);"))
M("c04-empty-element-reads-content", "R04.1", (RD, "self.start_element(&mut reader, &e, false);", "self.start_element(&mut reader, &e, true);"))
M("c04-onexit-closes-onentry-tag", "R04.1", (RD, "let ec_id = self.end_executable_content_region(TAG_ON_EXIT);", "let ec_id = self.end_executable_content_region(TAG_ON_ENTRY);"))
M("c04-cancel-not-dispatched", "R04.1", (RD, "            TAG_CANCEL => {\n                self.start_cancel(attr);\n            }\n", ""))
M("c04-pop-through-removed", "R04.1", (RD, "                    if (!tag.is_empty()) && tag.ne(oec_tag) {\n                        self.end_executable_content_region(tag);\n                    }\n",
                                       "                    let _ = oec_tag;\n"))
# ---------------------------------------------------------------------------------------------- R04.2
M("c04-log-rejected-in-finalize", "R04.2", (RD, "            TAG_LOG,\n" + LIST6, "            TAG_LOG,\n" + LIST5))
M("c04-send-accepted-in-finalize", "R04.2", (RD, "            TAG_SEND,\n" + LIST5, "            TAG_SEND,\n" + LIST6))
M("c04-final-accepted-in-parallel", "R04.2", (RD, "self.verify_parent_tag(TAG_FINAL, &[TAG_SCXML, TAG_STATE]);", "self.verify_parent_tag(TAG_FINAL, &[TAG_SCXML, TAG_STATE, TAG_PARALLEL]);"))
M("c04-donedata-parent-check-removed", "R04.2", (RD, "        self.verify_parent_tag(TAG_DONEDATA, &[TAG_FINAL]);\n", ""))
# ---------------------------------------------------------------------------------------------- R04.3
M("c04-dispatch-on-qualified-name", "R04.3", (RD, "        let n = e.local_name();\n", "        let n = e.name();\n"))
M("c04-end-on-qualified-name", "R04.3", (RD, "self.end_element(str::from_utf8(e.local_name().as_ref()).unwrap());\n                }\n                Ok(Event::Empty(e))",
                                         "self.end_element(str::from_utf8(e.name().as_ref()).unwrap());\n                }\n                Ok(Event::Empty(e))"))
# ---------------------------------------------------------------------------------------------- R04.4
M("c04-text-not-unescaped", "R04.4", (RD, "Ok(Event::Text(e)) => txt.push(e.unescape().unwrap().into_owned()),", "Ok(Event::Text(e)) => txt.push(String::from_utf8_lossy(e.as_ref()).into_owned()),"))
M("c04-second-raw-slice", "R04.4", (RD, "        let src = script_text.trim();\n", "        let src = if script_text.is_empty() { script_text.trim() } else { self.content[0..0].trim() };\n"))
# ---------------------------------------------------------------------------------------------- R04.5
M("c04-transition-docid-at-end-tag", "R04.5",
  (RD, "        t.doc_id = DOC_ID_COUNTER.fetch_add(1, Ordering::Relaxed);\n\n        // Start script.", "        // Start script."),
  (RD, "        // Assign the collected content to the transition.\n        trans.content = ec_id;", "        // Assign the collected content to the transition.\n        trans.content = ec_id;\n        trans.doc_id = DOC_ID_COUNTER.fetch_add(1, Ordering::Relaxed);"))
M("c04-state-docid-only-with-parent", "R04.5", (RD, "        state.doc_id = DOC_ID_COUNTER.fetch_add(1, Ordering::Relaxed);\n\n        if parent != 0 {\n            state.parent = parent;",
                                                "        if parent != 0 {\n            state.doc_id = DOC_ID_COUNTER.fetch_add(1, Ordering::Relaxed);\n            state.parent = parent;"))
M("c04-forward-reference-takes-docid", "R04.5", (RD, "                let sid = s.id;\n", "                let sid = s.id;\n                s.doc_id = DOC_ID_COUNTER.fetch_add(1, Ordering::Relaxed);\n"))
M("c04-state-id-not-index-plus-one", "R04.5", (RD, "s.id = (self.fsm.states.len() + 1) as StateId;", "s.id = (self.fsm.states.len() + 2) as StateId;"))

# ---------------------------------------------------------------------------------------------- benign
B("c04-benign-rename-locals",
  (RD, "        let n = e.local_name();\n        let name = str::from_utf8(n.as_ref()).unwrap();\n        self.push(name);", "        let local = e.local_name();\n        let tag_name = str::from_utf8(local.as_ref()).unwrap();\n        self.push(tag_name);"),
  (RD, "        let attr = &decode_attributes(reader, &mut e.attributes());\n\n        match name {", "        let attr = &decode_attributes(reader, &mut e.attributes());\n\n        match tag_name {"),
  (RD, "                debug!(\"Ignored tag {}\", name)", "                debug!(\"Ignored tag {}\", tag_name)"))
B("c04-benign-reorder-arms-and-trace",
  (RD, "            TAG_LOG => {\n                self.start_log(attr);\n            }\n            TAG_ASSIGN => {\n                self.start_assign(attr, reader, has_content);\n            }\n",
       "            TAG_ASSIGN => {\n                self.start_assign(attr, reader, has_content);\n            }\n            TAG_LOG => {\n                info!(\"log element\");\n                self.start_log(attr);\n            }\n"))
B("c04-benign-hoist-doc-id",
  (RD, "        state.doc_id = DOC_ID_COUNTER.fetch_add(1, Ordering::Relaxed);\n\n        if parent != 0 {", "        let document_order = DOC_ID_COUNTER.fetch_add(1, Ordering::Relaxed);\n        state.doc_id = document_order;\n\n        if parent != 0 {"))
B("c04-benign-hoist-parent-and-region-id",
  (RD, "        let sid = self.get_or_create_state_with_attributes(attr, false, self.current.current_state);\n        self.current.current_state = sid;\n        sid",
       "        let parent = self.current.current_state;\n        let sid = self.get_or_create_state_with_attributes(attr, false, parent);\n        self.current.current_state = sid;\n        sid"),
  (RD, "        self.verify_parent_tag(TAG_ON_ENTRY, &[TAG_STATE, TAG_PARALLEL, TAG_FINAL]);\n        self.start_executable_content_region(false, TAG_ON_ENTRY);",
       "        self.verify_parent_tag(TAG_ON_ENTRY, &[TAG_STATE, TAG_PARALLEL, TAG_FINAL]);\n        let _region = self.start_executable_content_region(false, TAG_ON_ENTRY);"))
B("c04-benign-script-root-flag-renamed",
  (RD, "        let at_root = self.get_parent_tag().eq(TAG_SCXML);\n\n        if !at_root {", "        let top_level = self.get_parent_tag().eq(TAG_SCXML);\n\n        if !top_level {"),
  (RD, "        if at_root {\n            self.start_executable_content_region(false, TAG_SCRIPT);\n        }", "        if top_level {\n            self.start_executable_content_region(false, TAG_SCRIPT);\n        }"),
  (RD, "        if at_root {\n            self.fsm.script = self.end_executable_content_region(TAG_SCRIPT);\n        }", "        if top_level {\n            self.fsm.script = self.end_executable_content_region(TAG_SCRIPT);\n        }"))
# a repair of D22 must be accepted by R04.4
B("c04-repair-d22-unescape", (RD, "                let r = self.content[(span.start as usize)..(span.end as usize)]\n                    .trim()\n                    .to_string();",
                              "                let r = quick_xml::escape::unescape(self.content[(span.start as usize)..(span.end as usize)].trim())\n                    .unwrap()\n                    .to_string();"))
