"""Tiny helper for per-property mutant files (selftest/m_Cxx.py):

    from mlib import new
    ALL, M, B = new("C08")
    M("c08-drop-else", "R08.2", ("src/executable_content.rs", "old text", "new text"))   # mutant: must be caught by a rule id containing "R08.2"
    B("c08-benign-rename", ("src/executable_content.rs", "old", "new"))                    # benign refactor: must stay silent
"""


def new(prop):
    ALL = []

    def M(id, expect, *edits):
        ALL.append({"id": id, "prop": prop, "kind": "mutant", "expect": expect, "edits": list(edits)})

    def B(id, *edits):
        ALL.append({"id": id, "prop": prop, "kind": "benign", "edits": list(edits)})
    return ALL, M, B
