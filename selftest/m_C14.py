"""C14 self-test: mutants (must be caught by the named rule) and benign refactors (must stay silent).
No test of the pinned suite uses <invoke>, so every mutant leaves the 57 tests green."""
from mlib import new

ALL, M, B = new("C14")
FSM = "src/fsm.rs"

# ------------------------------------------------------------------------------------------ mutants
M("c14-exited-state-still-invoked", "R14.1",
  (FSM, "            for s in statesToExit.iterator() {\n                gd.statesToInvoke.delete(s);\n            }\n", ""))
M("c14-cleared-before-the-invoke-loop", "R14.1",
  (FSM, "                    global_lock.statesToInvoke.clear();\n", ""),
  (FSM, "            for sid in sortedStatesToInvoke.iterator() {\n                let state = self.get_state_by_id(*sid);\n                for inv in state.invoke.sort",
        "            get_global!(datamodel).statesToInvoke.clear();\n            for sid in sortedStatesToInvoke.iterator() {\n                let state = self.get_state_by_id(*sid);\n                for inv in state.invoke.sort"))
M("c14-invoked-in-exit-order", "R14.1",
  (FSM, "                .sort(&|s1, s2| self.state_entry_order(s1, s2));\n            for sid in sortedStatesToInvoke.iterator() {",
        "                .sort(&|s1, s2| self.state_exit_order(s1, s2));\n            for sid in sortedStatesToInvoke.iterator() {"))
M("c14-unscheduled-after-exit", "R14.1",
  (FSM, "            for s in statesToExit.iterator() {\n                gd.statesToInvoke.delete(s);\n            }\n", ""),
  (FSM, "            get_global!(datamodel).configuration.delete(sid)\n        }\n",
        "            get_global!(datamodel).configuration.delete(sid)\n        }\n        for s in statesToExit.iterator() {\n            get_global!(datamodel).statesToInvoke.delete(s);\n        }\n"))
M("c14-registered-under-declared-id-only", "R14.2",
  (FSM, "                    .insert(invokeId, session);", "                    .insert(inv.invoke_id.clone(), session);"))
M("c14-cancel-sent-before-unregistering", "R14.2",
  (FSM, "        get_global!(datamodel).child_sessions.remove(invoke_id);\n        datamodel.send(\n            SCXML_EVENT_PROCESSOR_SHORT_TYPE,\n"
        "            &Data::String(format!(\"{}{}\", SCXML_TARGET_SESSION_ID_PREFIX, session_id)),\n            Event::new_simple(EVENT_CANCEL_SESSION),\n        );\n",
        "        datamodel.send(\n            SCXML_EVENT_PROCESSOR_SHORT_TYPE,\n"
        "            &Data::String(format!(\"{}{}\", SCXML_TARGET_SESSION_ID_PREFIX, session_id)),\n            Event::new_simple(EVENT_CANCEL_SESSION),\n        );\n"
        "        get_global!(datamodel).child_sessions.remove(invoke_id);\n"))
M("c14-exit-cancels-the-other-children", "R14.2",
  (FSM, "                    if invoke_doc_ids.contains(&session.invoke_doc_id) {", "                    if !invoke_doc_ids.contains(&session.invoke_doc_id) {"))
M("c14-session-not-tied-to-its-invoke", "R14.2",
  (FSM, "                session.invoke_doc_id = inv.doc_id;\n", ""))
M("c14-finalize-of-every-invoke", "R14.3",
  (FSM, "                                        if inv.doc_id == invoke_doc_id {\n                                            toFinalize.push(inv.finalize);\n                                        }\n",
        "                                        toFinalize.push(inv.finalize);\n"))
M("c14-finalize-after-transition-selection", "R14.3",
  (FSM, "            for finalizeContentId in toFinalize {\n                // applyFinalize\n                self.executeContent(datamodel, finalizeContentId);\n            }\n", ""),
  (FSM, "            enabledTransitions = self.selectTransitions(datamodel, &externalEvent);\n            if !enabledTransitions.isEmpty() {\n                self.microstep(datamodel, &enabledTransitions.toList());\n            }\n",
        "            enabledTransitions = self.selectTransitions(datamodel, &externalEvent);\n            for finalizeContentId in toFinalize {\n                self.executeContent(datamodel, finalizeContentId);\n            }\n"
        "            if !enabledTransitions.isEmpty() {\n                self.microstep(datamodel, &enabledTransitions.toList());\n            }\n"))
M("c14-finalize-before-event-is-bound", "R14.3",
  (FSM, "            datamodel.set_event(&externalEvent);\n            for finalizeContentId in toFinalize {\n                // applyFinalize\n                self.executeContent(datamodel, finalizeContentId);\n            }\n",
        "            for finalizeContentId in toFinalize {\n                // applyFinalize\n                self.executeContent(datamodel, finalizeContentId);\n            }\n            datamodel.set_event(&externalEvent);\n"))
M("c14-forwarded-without-autoforward", "R14.4",
  (FSM, "                                        if inv.autoforward {\n                                            toForward.push(invokeId.clone());",
        "                                        if inv.doc_id == invoke_doc_id {\n                                            toForward.push(invokeId.clone());"))
M("c14-forwarded-after-transition-selection", "R14.4",
  (FSM, "            enabledTransitions = self.selectTransitions(datamodel, &externalEvent);\n            if !enabledTransitions.isEmpty() {\n                self.microstep(datamodel, &enabledTransitions.toList());\n            }\n",
        "            enabledTransitions = self.selectTransitions(datamodel, &externalEvent);\n            for invokeId in toForward2 {\n                if let Some(session) = get_global!(datamodel).child_sessions.get(&invokeId) {\n"
        "                    let _ = session.sender.send(externalEvent.clone());\n                }\n            }\n"
        "            if !enabledTransitions.isEmpty() {\n                self.microstep(datamodel, &enabledTransitions.toList());\n            }\n"),
  (FSM, "            for invokeId in toForward {\n", "            let toForward2 = toForward.clone();\n            for invokeId in toForward {\n"))
M("c14-done-invoke-keeps-the-child", "R14.5",
  (FSM, "            if externalEvent.name.starts_with(EVENT_DONE_INVOKE_PREFIX) {", "            if externalEvent.name.starts_with(\"done.state.\") {"))
M("c14-child-removed-by-any-of-its-events", "R14.5",
  (FSM, "            if externalEvent.name.starts_with(EVENT_DONE_INVOKE_PREFIX) {\n                if let Some(invoke_id) = &externalEvent.invoke_id {",
        "            {\n                if let Some(invoke_id) = &externalEvent.invoke_id {"))
M("c14-undeclared-data-injected", "R14.6",
  (FSM, "                            if root_state.data.get_mut(&val.name).is_some() {", "                            if root_state.data.get_mut(&val.name).is_none() {"))
M("c14-all-passed-data-injected", "R14.6",
  (FSM, "                            if root_state.data.get_mut(&val.name).is_some() {", "                            {"))

# ------------------------------------------------------------------------------------------ benign refactors
B("c14-benign-rename-doc-id-set",
  (FSM, "invoke_doc_ids", "exited_invokes"), (FSM, "invoke_doc_ids", "exited_invokes"), (FSM, "invoke_doc_ids", "exited_invokes"), (FSM, "invoke_doc_ids", "exited_invokes"))
B("c14-benign-hoist-and-reorder-session-fields",
  (FSM, "                session.state_id = Some(state_id);\n                session.invoke_doc_id = inv.doc_id;\n",
        "                let started_by = inv.doc_id;\n                session.invoke_doc_id = started_by;\n                session.state_id = Some(state_id);\n"))
B("c14-benign-trace-in-cancel-invoke",
  (FSM, "        get_global!(datamodel).child_sessions.remove(invoke_id);\n        datamodel.send(",
        "        debug!(\"cancel invoke {}\", invoke_id);\n        get_global!(datamodel).child_sessions.remove(invoke_id);\n        datamodel.send("))
B("c14-benign-done-invoke-match-instead-of-if-let",
  (FSM, "                if let Some(invoke_id) = &externalEvent.invoke_id {\n                    get_global!(datamodel).child_sessions.remove(invoke_id);\n                }\n",
        "                match &externalEvent.invoke_id {\n                    Some(invoke_id) => {\n                        get_global!(datamodel).child_sessions.remove(invoke_id);\n                    }\n"
        "                    None => {}\n                }\n"))
B("c14-benign-declared-test-by-contains-key",
  (FSM, "                            if root_state.data.get_mut(&val.name).is_some() {", "                            if root_state.data.contains_key(&val.name) {"))
B("c14-benign-hoisted-sorted-invokes",
  (FSM, "                for inv in state.invoke.sort(&Fsm::invoke_document_order).iterator() {",
        "                let ordered = state.invoke.sort(&Fsm::invoke_document_order);\n                for inv in ordered.iterator() {"))
# not a refactor: a repair of D21 (forward to every autoforward invoke of the active states); the rule must accept it
B("c14-repair-d21-forward-from-configuration",
  (FSM, "                                        if inv.autoforward {\n                                            toForward.push(invokeId.clone());\n                                        }\n", ""),
  (FSM, "            datamodel.set_event(&externalEvent);\n            for finalizeContentId in toFinalize {",
        "            {\n                let gd = get_global!(datamodel);\n                for sid in gd.configuration.iterator() {\n"
        "                    for inv in self.get_state_by_id(*sid).invoke.iterator() {\n                        if inv.autoforward {\n"
        "                            for (id, session) in &gd.child_sessions {\n                                if session.invoke_doc_id == inv.doc_id {\n"
        "                                    toForward.push(id.clone());\n                                }\n                            }\n                        }\n"
        "                    }\n                }\n            }\n"
        "            datamodel.set_event(&externalEvent);\n            for finalizeContentId in toFinalize {"))
