"""Mutants (must be caught) and benign refactors (must be silent) for the checker self-test.

Every edit is an exact text replacement (file, old, new[, nth occurrence]) applied to a scratch
copy of /repo; the texts are only the *vehicle* of the self-test, no rule looks at text.
All mutants compile and leave the pinned 57 tests green (spot-checked when added).
"""
ALL = []


def M(id, prop, expect, *edits):
    ALL.append({"id": id, "prop": prop, "kind": "mutant", "expect": expect, "edits": list(edits)})


def B(id, prop, *edits):
    ALL.append({"id": id, "prop": prop, "kind": "benign", "edits": list(edits)})


FSM = "src/fsm.rs"

# ------------------------------------------------------------------------------------------ C01
M("c01-swap-isdescendant-exitset", "C01", "R01.4", (FSM, "if self.isDescendant(*s, domain) {", "if self.isDescendant(domain, *s) {"))
M("c01-second-config-writer", "C01", "R01.1", (FSM, "        get_global!(datamodel).child_sessions.remove(invoke_id);\n        datamodel.send(",
                                               "        get_global!(datamodel).child_sessions.remove(invoke_id);\n        get_global!(datamodel).configuration.clear();\n        datamodel.send("))
M("c01-history-entered", "C01", "R01.5", (FSM, "        let state = self.get_state_by_id(sid);\n        if self.isHistoryState(sid) {",
                                          "        let state = self.get_state_by_id(sid);\n        statesToEnter.add(sid);\n        if self.isHistoryState(sid) {"))
M("c01-parallel-completion-removed", "C01", "R01.3", (FSM, "            } else if self.isParallelState(sid) {\n                for child in self.getChildStates(sid).iterator() {",
                                                      "            } else if self.isParallelState(sid) {\n                for child in List::<StateId>::new().iterator() {"))
M("c01-internal-branch-dropped", "C01", "R01.4", (FSM, "        } else if t.transition_type == TransitionType::Internal\n            && self.isCompoundState(t.source)",
                                                  "        } else if t.transition_type == TransitionType::Internal\n            && !self.isCompoundState(t.source)"))
M("c01-lcca-filter-dropped", "C01", "R01.", (FSM, "            .filter_by(&|s| self.isCompoundStateOrScxmlElement(*s))\n", "            .filter_by(&|_s| true)\n"))
M("c01-conflict-filter-bypassed", "C01", "R01.7", (FSM, "        enabledTransitions = self.removeConflictingTransitions(datamodel, &enabledTransitions);\n        #[cfg(feature = \"Trace_Method\")]\n        self.tracer\n            .trace_result(\"enabledTransitions\", &enabledTransitions);\n        #[cfg(feature = \"Trace_Method\")]\n        self.tracer.exit_method(\"selectTransitions\");",
                                                   "        let _unused = self.removeConflictingTransitions(datamodel, &enabledTransitions);\n        #[cfg(feature = \"Trace_Method\")]\n        self.tracer\n            .trace_result(\"enabledTransitions\", &enabledTransitions);\n        #[cfg(feature = \"Trace_Method\")]\n        self.tracer.exit_method(\"selectTransitions\");"))
M("c01-set-add-duplicates", "C01", "R01.8", (FSM, "        if !self.data.contains(&e) {\n            self.data.push(e.clone());\n        }", "        self.data.push(e.clone());"))
M("c01-isdescendant-walk-from-state2", "C01", "R01.3", (FSM, "            let mut currState = self.get_state_by_id(state1).parent;\n            while currState != 0 && currState != state2 {\n                currState = self.get_state_by_id(currState).parent;\n            }\n            result = currState == state2;",
                                                        "            let mut currState = self.get_state_by_id(state2).parent;\n            while currState != 0 && currState != state1 {\n                currState = self.get_state_by_id(currState).parent;\n            }\n            result = currState == state1;"))
M("c01-exit-order-for-entry", "C01", "R01.2", (FSM, "            .sort(&|s1, s2| self.state_entry_order(s1, s2))\n            .iterator()\n        {\n            #[cfg(feature = \"Trace_State\")]",
                                               "            .sort(&|s1, s2| self.state_exit_order(s1, s2))\n            .iterator()\n        {\n            #[cfg(feature = \"Trace_State\")]"))
M("c01-conflict-args-swapped", "C01", "R01.4", (FSM, "if self.isDescendant(t1.source, t2.source) {", "if self.isDescendant(t2.source, t1.source) {"))
M("c01-ancestors-of-wrong-state", "C01", "R01.5", (FSM, "for anc in self.getProperAncestors(state, ancestor).iterator() {", "for anc in self.getProperAncestors(ancestor, state).iterator() {"))
M("c01-reader-history-as-child", "C01", "R01.6", ("src/scxml_reader.rs", "self.get_or_create_state_with_attributes(attr, false, 0)", "self.get_or_create_state_with_attributes(attr, false, self.current.current_state)"))

B("c01-benign-rename-locals", "C01", (FSM, "                let domain = self.getTransitionDomain(datamodel, t);\n                for s in get_global!(datamodel).configuration.iterator() {\n                    if self.isDescendant(*s, domain) {\n                        statesToExit.add(*s);",
                                      "                let dom2 = self.getTransitionDomain(datamodel, t);\n                for active in get_global!(datamodel).configuration.iterator() {\n                    if self.isDescendant(*active, dom2) {\n                        statesToExit.add(*active);"))
B("c01-benign-hoist-let", "C01", (FSM, "        for anc in self.getProperAncestors(state, ancestor).iterator() {\n            statesToEnter.add(*anc);",
                                  "        let ancs = self.getProperAncestors(state, ancestor);\n        for anc in ancs.iterator() {\n            statesToEnter.add(*anc);"))
B("c01-benign-extra-trace", "C01", (FSM, "        let mut statesToExit: OrderedSet<StateId> = OrderedSet::new();\n        for tid in transitions.iterator() {",
                                    "        let mut statesToExit: OrderedSet<StateId> = OrderedSet::new();\n        debug!(\"computing exit set\");\n        for tid in transitions.iterator() {"))
