"""C20 self-test: mutants of the BasicHTTP receiver/sender and benign refactors."""
from mlib import new

ALL, M, B = new("C20")
H = "src/event_io_processor/http_event_io_processor.rs"
EX = "src/fsm_executor.rs"

# ---------------------------------------------------------------------------------------------- mutants
M("c20-name-defaulted-when-missing", "R20.1", (H, "                match event_name {\n", "                match event_name.or(Some(String::new())) {\n"))
M("c20-ok-status-on-failed-send", "R20.1", (H, "                                    rocket::http::Status::InternalServerError,\n                                    \"Can't send\".to_string(),",
                                            "                                    rocket::http::Status::Ok,\n                                    \"Can't send\".to_string(),"))
M("c20-unknown-session-answers-ok", "R20.1", (H, "            None => (\n                rocket::http::Status::BadRequest,\n                format!(\"Session {} not found\", sessionid),",
                                              "            None => (\n                rocket::http::Status::Ok,\n                format!(\"Session {} not found\", sessionid),"))
M("c20-event-per-extra-field", "R20.1", (H, "                            if event.param_values.is_none() {\n",
                                         "                            let _ = scxml_session.sender.send(Box::new(Event::new_external()));\n                            if event.param_values.is_none() {\n"))
M("c20-delivered-to-arbitrary-session", "R20.1", (H, "match state.sessions.get(&sessionid) {", "match state.sessions.values().next() {"))
M("c20-missing-name-accepted", "R20.1", (H, "                    None => (\n                        rocket::http::Status::BadRequest,\n                        format!(\"Missing argument '{}'\", SCXML_EVENT_NAME),",
                                         "                    None => (\n                        rocket::http::Status::Accepted,\n                        format!(\"Missing argument '{}'\", SCXML_EVENT_NAME),"))
M("c20-sender-content-key-renamed", "R20.2", (H, "data.push((\"_content\", content.to_string()));", "data.push((\"content\", content.to_string()));"))
M("c20-sender-name-key-literal-drift", "R20.2", (H, "data.push((SCXML_EVENT_NAME, event.name));", "data.push((\"_scxmlevent\", event.name));"))
M("c20-receiver-content-key-drift", "R20.2", (H, "                        SCXML_EVENT_CONTENT => {\n", "                        \"content\" => {\n"))
M("c20-param-name-value-swapped", "R20.2", (H, "                                name,\n                                value: Data::String(value),",
                                            "                                name: value,\n                                value: Data::String(name),"))
M("c20-form-pairs-swapped", "R20.2", (H, ".map(|(name, value)| (*name, value.as_str()))", ".map(|(name, value)| (value.as_str(), *name))"))
M("c20-content-not-sent", "R20.2", (H, "        if let Some(content) = &event.content {\n            data.push((\"_content\", content.to_string()));\n        }",
                                    "        if let Some(content) = &event.content {\n            debug!(\"content {} dropped\", content);\n        }"))
M("c20-route-renamed", "R20.3", (H, "#[post(\"/scxml/<sessionid>\", data = \"<params>\")]", "#[post(\"/event/<sessionid>\", data = \"<params>\")]"))
M("c20-location-path-changed", "R20.3", (H, "location: format!(\"http://{}:{}/scxml/\", location_name, port),", "location: format!(\"http://{}:{}/\", location_name, port),"))
M("c20-location-without-id", "R20.3", (H, "        format!(\"{}{}\", self.location, id)", "        format!(\"{}\", self.location)"))
M("c20-published-port-differs", "R20.3", (EX, "                    \"localhost\",\n                    5555,", "                    \"localhost\",\n                    8080,"))
M("c20-sender-uses-put", "R20.", (H, "ureq::post(target)", "ureq::put(target)"))

# ---------------------------------------------------------------------------------------------- benign
B("c20-benign-rename-locals",
  (H, "            Some(scxml_session) => {\n", "            Some(session) => {\n"),
  (H, "match scxml_session.sender.send(Box::new(event)) {", "match session.sender.send(Box::new(event)) {"),
  (H, "for (name, value) in form_data {\n                    match name.as_str() {", "for (key, value) in form_data {\n                    match key.as_str() {"),
  (H, "                            let pair = ParamPair {\n                                name,\n", "                            let pair = ParamPair {\n                                name: key,\n"))
B("c20-benign-hoist-sender-and-result",
  (H, "                        match scxml_session.sender.send(Box::new(event)) {", "                        let tx = &scxml_session.sender;\n                        let boxed = Box::new(event);\n                        let outcome = tx.send(boxed);\n                        match outcome {"))
B("c20-benign-early-return-session",
  (H, """        Ok(state) => match state.sessions.get(&sessionid) {
            None => (
                rocket::http::Status::BadRequest,
                format!("Session {} not found", sessionid),
            ),
            Some(scxml_session) => {
                let mut event = Event::new_external();
""", """        Ok(state) => {
            let Some(scxml_session) = state.sessions.get(&sessionid) else {
                return (
                    rocket::http::Status::BadRequest,
                    format!("Session {} not found", sessionid),
                );
            };
            {
                let mut event = Event::new_external();
"""),
  (H, """                        }
                    }
                }
            }
        },
        Err(_) => {
            error!("Can't send event because lock failed.");""", """                        }
                    }
                }
            }
        }
        Err(_) => {
            error!("Can't send event because lock failed.");"""))
B("c20-benign-tracing", (H, "    let form_data = params.into_inner();\n", "    let form_data = params.into_inner();\n    info!(\"HTTP event for session {} with {} field(s)\", sessionid, form_data.len());\n"))
B("c20-benign-reorder-and-const",
  (H, """        if let Some(parameters) = &event.param_values {
            for e in parameters {
                data.push((e.name.as_str(), e.value.to_string()));
            }
        }
        if let Some(content) = &event.content {
            data.push(("_content", content.to_string()));
        }
""", """        if let Some(content) = &event.content {
            data.push((SCXML_EVENT_CONTENT, content.to_string()));
        }
        if let Some(parameters) = &event.param_values {
            for e in parameters {
                data.push((e.name.as_str(), e.value.to_string()));
            }
        }
"""))
B("c20-benign-is-ok-instead-of-match",
  (H, """                        match scxml_session.sender.send(Box::new(event)) {
                            Ok(_) => (rocket::http::Status::Ok, "Event send".to_string()),
                            Err(err) => {
                                error!("Failed to Send Event: {}", err);
                                (
                                    rocket::http::Status::InternalServerError,
                                    "Can't send".to_string(),
                                )
                            }
                        }""", """                        let sent = scxml_session.sender.send(Box::new(event));
                        if sent.is_ok() {
                            (rocket::http::Status::Ok, "Event send".to_string())
                        } else {
                            error!("Failed to Send Event");
                            (
                                rocket::http::Status::InternalServerError,
                                "Can't send".to_string(),
                            )
                        }"""))
