from mlib import new
ALL, M, B = new("C17")

HTTP = "src/event_io_processor/http_event_io_processor.rs"
EXE = "src/fsm_executor.rs"
FSM = "src/fsm.rs"
EC = "src/executable_content.rs"

# the HTTP status page waits for a session's G while holding E (E->G foreign) -- closes E>G>E with invoke / send_to_session (G->E)
M("c17-welcome-blocking-lock", "R17.1",
  (HTTP, "            match es.sessions.get(k).unwrap().global_data.try_lock() {", "            match es.sessions.get(k).unwrap().global_data.lock() {"))
# the executor looks into the target session's G while holding E
M("c17-executor-peeks-into-session", "R17.1",
  (EXE, "        Some(\n            self.state\n                .lock()\n                .unwrap()\n                .sessions\n                .get(&session_id)?\n                .sender\n                .clone(),\n        )",
   "        let st = self.state.lock().unwrap();\n        let s = st.sessions.get(&session_id)?;\n        if s.global_data.lock().unwrap().final_configuration.is_some() {\n            return None;\n        }\n        Some(s.sender.clone())"))
# cancelInvoke keeps the session G locked over the send through the I/O processor (G->P new holder, and G->G on the own instance)
M("c17-cancel-holds-g-over-send", "R17.",
  (FSM, "        get_global!(datamodel).child_sessions.remove(invoke_id);\n        datamodel.send(",
   "        let gclone = datamodel.global().clone();\n        let mut gkeep = gclone.lock().unwrap();\n        gkeep.child_sessions.remove(invoke_id);\n        datamodel.send("))
# remove_session now waits for the session's lock while holding E
M("c17-remove-session-waits", "R17.1",
  (EXE, "        self.state.lock().unwrap().sessions.remove(&session_id);",
   "        let mut st = self.state.lock().unwrap();\n        if let Some(s) = st.sessions.get(&session_id) {\n            let _quiesce = s.global_data.lock().unwrap();\n        }\n        st.sessions.remove(&session_id);"))
# the blocking dequeue is done while holding the session's G
M("c17-recv-under-g", "R17.3",
  (FSM, "                    let externalEventTmp = externalQueue_receiver.lock().unwrap().recv().unwrap();",
   "                    let gkeep = datamodel.global().clone();\n                    let _gk = gkeep.lock().unwrap();\n                    let externalEventTmp = externalQueue_receiver.lock().unwrap().recv().unwrap();\n                    drop(_gk);"))
# a new same-class nesting: Cancel evaluates its id while holding another value lock
M("c17-nested-value-locks", "R17.2",
  (EC, "        let type_val_string = if type_val.lock().unwrap().is_empty() {", "        let _ev_keep = event_name.lock().unwrap();\n        let type_val_string = if type_val.lock().unwrap().is_empty() {"))

# benign: narrowing a guard scope, renaming, hoisting the lock into a local
B("c17-benign-narrow-scope", (FSM, "            {\n                let mut gd = get_global!(datamodel);\n                gd.configuration.add(*s);\n                gd.statesToInvoke.add(*s);\n            }",
                              "            get_global!(datamodel).configuration.add(*s);\n            get_global!(datamodel).statesToInvoke.add(*s);"))
# (FsmExecutor::shutdown has no named executor-state guard any more since /repo commit 5023d5a: the rename is applied to the
#  executor-state guard of set_global_options_from_arguments and to the locals of today's shutdown)
B("c17-benign-rename-guard", (EXE, "        let mut guard = self.state.lock().unwrap();\n        // Currently only Datamodel options are relevant. Ignore all other stuff.",
                              "        let mut st_guard = self.state.lock().unwrap();\n        // Currently only Datamodel options are relevant. Ignore all other stuff."),
  (EXE, "                guard\n                    .datamodel_options", "                st_guard\n                    .datamodel_options"),
  (EXE, "        let mut processors = std::mem::take(&mut self.state.lock().unwrap().processors);\n        while let Some(pp) = processors.pop() {\n            pp.lock().unwrap().shutdown();",
        "        let mut taken = std::mem::take(&mut self.state.lock().unwrap().processors);\n        while let Some(proc_arc) = taken.pop() {\n            proc_arc.lock().unwrap().shutdown();"))
B("c17-benign-sender-clone-first", (EXE, "        self.state.lock().unwrap().sessions.remove(&session_id);", "        let mut st = self.state.lock().unwrap();\n        st.sessions.remove(&session_id);\n        drop(st);"))
