"""C16 mutants / benign refactors (delayed send and cancel)."""
from mlib import new

ALL, M, B = new("C16")

X = "src/executable_content.rs"
F = "src/fsm.rs"

CLOSURE_HEAD = "                let tg = fsm.schedule(delay_ms, move || {\n"
REMOVE_BLOCK = ("                    if let Some(sid) = &send_id_clone {\n"
                "                        global_clone.lock().unwrap().delayed_send.remove(sid);\n"
                "                    }\n")

# ---- R16.1 evaluate-at-execute
M("c16-closure-evaluates-at-fire-time", "R16.1",
  (X, CLOSURE_HEAD, CLOSURE_HEAD + "                    let _late = crate::expression_engine::parser::ExpressionParser::execute_str(\"1\", &mut global_clone.lock().unwrap());\n"))
M("c16-closure-captures-unevaluated-content", "R16.1",
  (X, "                let target_str = target_data.to_string();\n", "                let target_str = target_data.to_string();\n                let late_content = self.content.clone();\n"),
  (X, CLOSURE_HEAD, CLOSURE_HEAD + "                    let _ = late_content.is_some();\n"))
M("c16-closure-captures-shared-target-cell", "R16.1",
  (X, "                let target_str = target_data.to_string();\n", "                let target_str = target_data.to_string();\n                let late_name = event_name.clone();\n"),
  (X, CLOSURE_HEAD, CLOSURE_HEAD + "                    let _ = late_name.lock().is_ok();\n"))
# ---- R16.2 must-consume
M("c16-guard-dropped-when-no-sendid", "R16.2", (X, "                    } else {\n                        g.ignore();\n                    }\n", "                    }\n"))
M("c16-guard-explicitly-dropped", "R16.2", (X, "                        g.ignore();", "                        drop(g);"))
# ---- R16.3 delayed_send bookkeeping
M("c16-cancel-ignores-sendidexpr", "R16.3", (X, "                .remove(&send_id.lock().unwrap().to_string());", "                .remove(&self.send_id);"))
M("c16-send-clears-pending-table", "R16.3", (X, "                let global_clone = datamodel.global_s().clone();\n",
                                                "                let global_clone = datamodel.global_s().clone();\n                global_clone.lock().unwrap().delayed_send.clear();\n"))
M("c16-insert-under-static-id", "R16.3", (X, "                            .insert(sid.clone(), g);", "                            .insert(self.name.clone(), g);"))
M("c16-closure-keeps-stale-entry", "R16.3", (X, REMOVE_BLOCK, "                    let _ = &send_id_clone;\n"))
M("c16-closure-removes-event-name", "R16.3", (X, "                        global_clone.lock().unwrap().delayed_send.remove(sid);\n",
                                                 "                        let _ = sid;\n                        global_clone.lock().unwrap().delayed_send.remove(&event.name);\n"))
# ---- R16.4 timer branch
M("c16-timer-branch-for-zero-delay", "R16.4", (X, "        let result = if delay_ms > 0 {", "        let result = if delay_ms >= 0 {"))
M("c16-minus-one-sent-immediately", "R16.4", (X, "        if delay_ms < 0 {\n            // Delay is invalid -> Abort", "        if delay_ms < -1 {\n            // Delay is invalid -> Abort"))
M("c16-short-delay-to-internal-allowed", "R16.4", (X, "        if delay_ms > 0 && target_data.to_string().eq(SCXML_TARGET_INTERNAL) {", "        if delay_ms > 1000 && target_data.to_string().eq(SCXML_TARGET_INTERNAL) {"))
M("c16-delay-taken-as-seconds", "R16.4", (F, ".schedule_with_delay(chrono::Duration::milliseconds(delay_ms), cb),", ".schedule_with_delay(chrono::Duration::seconds(delay_ms), cb),"))
M("c16-delayexpr-ignored", "R16.4", (X, "                Ok(delay) => parse_duration_to_milliseconds(&delay.lock().unwrap().to_string()),",
                                        "                Ok(_delay) => self.delay_ms as i64,"))
# ---- R16.5 unit table
M("c16-hour-is-a-minute", "R16.5", (X, "                v *= 60.0 * 60.0 * 1000.0;", "                v *= 60.0 * 1000.0;"))
M("c16-uppercase-ms-rejected", "R16.5", (X, "            \"MS\" | \"ms\" => {}", "            \"ms\" => {}"))
M("c16-unknown-unit-is-milliseconds", "R16.5", (X, "            \"MS\" | \"ms\" => {}\n            _ => {\n                return -1;\n            }", "            \"MS\" | \"ms\" => {}\n            _ => {}"))
M("c16-result-truncated-not-rounded", "R16.5", (X, "        v.round() as i64\n", "        v as i64\n"))
# ---- R16.6 timer ownership
M("c16-fresh-timer-per-send", "R16.6", (F, "                self.timer\n                    .schedule_with_delay(", "                timer::Timer::new()\n                    .schedule_with_delay("))
M("c16-timer-handed-out", "R16.6", (F, "    pub fn schedule<F>(&self, delay_ms: i64, mut cb: F) -> Option<Guard>",
                                       "    pub fn timer_ref(&self) -> &timer::Timer {\n        &self.timer\n    }\n\n    pub fn schedule<F>(&self, delay_ms: i64, mut cb: F) -> Option<Guard>"))

# ---- benign refactors
B("c16-benign-rename-guard-option", (X, "                let tg = fsm.schedule(delay_ms, move || {", "                let pending = fsm.schedule(delay_ms, move || {"),
  (X, "                if let Some(g) = tg {", "                if let Some(g) = pending {"))
B("c16-benign-reorder-clones", (X, "                let global_clone = datamodel.global_s().clone();\n                let send_id_clone = send_id.clone();\n",
                                   "                let send_id_clone = send_id.clone();\n                let global_clone = datamodel.global_s().clone();\n"))
B("c16-benign-early-return-in-schedule", (F, "        if delay_ms > 0 {\n            Some(\n                self.timer\n                    .schedule_with_delay(chrono::Duration::milliseconds(delay_ms), cb),\n            )\n        } else {\n            cb();\n            None\n        }",
                                             "        if delay_ms <= 0 {\n            cb();\n            return None;\n        }\n        let guard = self\n            .timer\n            .schedule_with_delay(chrono::Duration::milliseconds(delay_ms), cb);\n        Some(guard)"))
B("c16-benign-trace-in-closure", (X, CLOSURE_HEAD, CLOSURE_HEAD + "                    error!(\"delayed send fires\");\n"))
B("c16-benign-hoist-cancel-key", (X, "            get_global!(datamodel)\n                .delayed_send\n                .remove(&send_id.lock().unwrap().to_string());",
                                     "            let key = send_id.lock().unwrap().to_string();\n            get_global!(datamodel).delayed_send.remove(&key);"))
B("c16-benign-rename-scaled-value", (X, "        let mut v = value_result.unwrap().as_double();", "        let mut millis = value_result.unwrap().as_double();"),
  (X, "                v *= 24.0 * 60.0 * 60.0 * 1000.0;", "                millis *= 24.0 * 60.0 * 60.0 * 1000.0;"),
  (X, "                v *= 60.0 * 60.0 * 1000.0;", "                millis *= 60.0 * 60.0 * 1000.0;"),
  (X, "                v *= 60000.0;", "                millis *= 60000.0;"),
  (X, "                v *= 1000.0;", "                millis *= 1000.0;"),
  (X, "        v.round() as i64\n", "        millis.round() as i64\n"))
