"""C19 self-test: mutants of the descriptor matcher / reader normalisation and benign refactors."""
from mlib import new

ALL, M, B = new("C19")
FSM = "src/fsm.rs"
RD = "src/scxml_reader.rs"
SR = "src/serializer/fsm_reader.rs"

NM_OLD = """        if self.wildcard {
            true
        } else {
            for e in &self.events {
                if name.starts_with(e) {
                    if name.len() == e.len() {
                        // Full match
                        return true;
                    } else if name.as_bytes().get(e.len()) == Some(&b'.') {
                        // partial match, token needs to be terminated with "."
                        // (e.len() is a byte length, so the position is addressed in bytes)
                        return true;
                    }
                }
            }
            false
        }
"""

# ---------------------------------------------------------------------------------------------- mutants
M("c19-length-compare-mixed-units", "R19.1", (FSM, "if name.len() == e.len() {\n                        // Full match",
                                               "if name.chars().count() == e.len() {\n                        // Full match"))
M("c19-dot-test-inverted", "R19.2", (FSM, "} else if name.as_bytes().get(e.len()) == Some(&b'.') {", "} else if name.as_bytes().get(e.len()) != Some(&b'.') {"))
M("c19-partial-token-accepted", "R19.2", (FSM, "if name.len() == e.len() {\n                        // Full match",
                                           "if name.len() >= e.len() {\n                        // Full match"))
M("c19-wildcard-restricted", "R19.2", (FSM, "        if self.wildcard {\n            true", "        if self.wildcard && !name.contains('.') {\n            true"))
M("c19-case-folded-compare", "R19.2", (FSM, "if name.starts_with(e) {", "if name.to_lowercase().starts_with(&e.to_lowercase()) {"))
M("c19-reader-folds-descriptor", "R19.2", (RD, "                    rt.to_string()\n                })", "                    rt.to_lowercase()\n                })"))
M("c19-reader-folds-in-helper", "R19.2",
  (RD, "                    rt.to_string()\n                })", "                    normalise_descriptor(rt)\n                })"),
  (RD, "/**\n * Decodes attributes into a hash-map\n */", "fn normalise_descriptor(s: &str) -> String {\n    s.to_ascii_lowercase()\n}\n\n/**\n * Decodes attributes into a hash-map\n */"))
M("c19-prefix-became-substring", "R19.2", (FSM, "if name.starts_with(e) {", "if name.contains(e.as_str()) {"))
M("c19-token-branch-dropped", "R19.2", (FSM, "                        // (e.len() is a byte length, so the position is addressed in bytes)\n                        return true;",
                                         "                        // (e.len() is a byte length, so the position is addressed in bytes)\n                        continue;"))
M("c19-reader-strips-star-not-dot", "R19.3", (RD, "match rt.strip_suffix(\".\") {", "match rt.strip_suffix(\"*\") {"))
M("c19-reader-single-pass", "R19.3", (RD, "                                do_it = true;\n                                rt = r", "                                do_it = false;\n                                rt = r", 1))
M("c19-wildcard-from-raw-attribute", "R19.3", (RD, "t.wildcard = t.events.contains(&\"*\".to_string());", "t.wildcard = event.unwrap().contains(\"*\");"))
M("c19-second-writer-of-events", "R19.3", (RD, "        // Assign the collected content to the transition.\n        trans.content = ec_id;",
                                           "        // Assign the collected content to the transition.\n        trans.content = ec_id;\n        trans.events.retain(|e| !e.is_empty());"))
M("c19-deserializer-wrong-flag", "R19.3", (SR, "transition.wildcard = (flags & 2) != 0;", "transition.wildcard = (flags & 4) != 0;"))

# ---------------------------------------------------------------------------------------------- benign
B("c19-benign-rename-locals", (FSM, NM_OLD, NM_OLD.replace("for e in", "for descriptor in").replace("starts_with(e)", "starts_with(descriptor)").replace("== e.len()", "== descriptor.len()")
                               .replace("get(e.len())", "get(descriptor.len())")))
B("c19-benign-hoist-length", (FSM, NM_OLD, NM_OLD.replace("                if name.starts_with(e) {", "                let dlen = e.len();\n                if name.starts_with(e) {")
                              .replace("name.len() == e.len()", "name.len() == dlen").replace("get(e.len())", "get(dlen)")))
B("c19-benign-early-return", (FSM, NM_OLD, """        if self.wildcard {
            return true;
        }
        debug!("nameMatch {}", name);
        for e in &self.events {
            if !name.starts_with(e) {
                continue;
            }
            if name.len() == e.len() {
                return true;
            }
            if name.as_bytes().get(e.len()) == Some(&b'.') {
                return true;
            }
        }
        false
"""))
B("c19-benign-single-condition", (FSM, NM_OLD, """        if self.wildcard {
            return true;
        }
        for e in self.events.iter() {
            if name.starts_with(e.as_str()) && (name.len() == e.len() || name.as_bytes().get(e.len()) == Some(&b'.')) {
                return true;
            }
        }
        false
"""))
B("c19-benign-reader-if-let", (RD, """                        match rt.strip_suffix(".*") {
                            None => {}
                            Some(r) => {
                                do_it = true;
                                rt = r
                            }
                        }""", """                        if let Some(stripped) = rt.strip_suffix(".*") {
                            do_it = true;
                            rt = stripped;
                        }"""))
# The two "c19-repair-d1-*" entries were repairs of D1 (descriptor byte length used as a character index) that the rule had to
# accept. /repo commit 4d6351f fixed D1 with exactly the byte addressing of "c19-repair-d1-byte-addressing"
# (name.as_bytes().get(e.len()) == Some(&b'.')), so that entry would be an empty edit now: deleted.
# "c19-repair-d1-strip-prefix" is kept under its old id: against today's (repaired) matcher it is an ordinary
# behaviour-preserving rewrite (strip_prefix + is_empty/starts_with('.') == starts_with + byte at e.len() is '.').
B("c19-repair-d1-strip-prefix", (FSM, NM_OLD, """        if self.wildcard {
            return true;
        }
        for e in &self.events {
            if let Some(rest) = name.strip_prefix(e.as_str()) {
                if rest.is_empty() || rest.starts_with('.') {
                    return true;
                }
            }
        }
        false
"""))
