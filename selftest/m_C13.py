from mlib import new
ALL, M, B = new("C13")

FSM = "src/fsm.rs"
EC = "src/executable_content.rs"
HTTP = "src/event_io_processor/http_event_io_processor.rs"
EXE = "src/fsm_executor.rs"

# a second consumer: the executor drains a session's queue to "peek"
M("c13-second-consumer", "R13.1", (EXE, "    pub fn remove_session(&mut self, session_id: SessionId) {\n        self.state.lock().unwrap().sessions.remove(&session_id);",
                                   "    pub fn remove_session(&mut self, session_id: SessionId) {\n        if let Some(s) = self.state.lock().unwrap().sessions.get(&session_id) {\n            if let Ok(g) = s.global_data.try_lock() {\n                if let Ok(r) = g.externalQueue.receiver.try_lock() {\n                    let _ = r.try_recv();\n                }\n            }\n        }\n        self.state.lock().unwrap().sessions.remove(&session_id);"))
# events whose invoke id equals the caller's are now dropped too (filter condition weakened)
M("c13-filter-drops-parent-events", "R13.2", (FSM, "                        if caller_invoke_id.ne(invoke_id) {", "                        if !invoke_id.is_empty() {"))
# events from unknown children are dropped even when they are done.invoke (early exit removed)
M("c13-done-invoke-filtered", "R13.2", (FSM, "                    if externalEventTmp.name.starts_with(EVENT_DONE_INVOKE_PREFIX) {\n                        externalEvent = externalEventTmp;\n                        break;\n                    }\n", ""))
# a new discarding path: events named like platform errors are swallowed
M("c13-new-discard-path", "R13.2", (FSM, "                    } else {\n                        externalEvent = externalEventTmp;\n                        break;\n                    }\n                }\n                #[cfg(feature = \"Trace_Method\")]\n                self.tracer.exit_method(\"externalQueue.dequeue\");",
                                    "                    } else if !externalEventTmp.name.starts_with(\"error.platform.x\") {\n                        externalEvent = externalEventTmp;\n                        break;\n                    }\n                }\n                #[cfg(feature = \"Trace_Method\")]\n                self.tracer.exit_method(\"externalQueue.dequeue\");"))
# the session lock is held across the blocking wait
M("c13-recv-under-session-lock", "R13.4", (FSM, "                    let externalEventTmp = externalQueue_receiver.lock().unwrap().recv().unwrap();",
                                           "                    let gkeep = datamodel.global().clone();\n                    let _gk = gkeep.lock().unwrap();\n                    let externalEventTmp = externalQueue_receiver.lock().unwrap().recv().unwrap();\n                    drop(_gk);"))

B("c13-benign-rename-tmp", (FSM, "                    let externalEventTmp = externalQueue_receiver.lock().unwrap().recv().unwrap();\n                    if externalEventTmp.name.starts_with(EVENT_DONE_INVOKE_PREFIX) {\n                        externalEvent = externalEventTmp;",
                            "                    let externalEventTmp = externalQueue_receiver.lock().unwrap().recv().unwrap();\n                    debug!(\"dequeued {}\", externalEventTmp.name);\n                    if externalEventTmp.name.starts_with(EVENT_DONE_INVOKE_PREFIX) {\n                        externalEvent = externalEventTmp;"))
B("c13-benign-guard-in-local", (FSM, "                    let externalEventTmp = externalQueue_receiver.lock().unwrap().recv().unwrap();",
                                "                    let externalEventTmp = {\n                        let rg = externalQueue_receiver.lock().unwrap();\n                        rg.recv().unwrap()\n                    };"))
