"""C02 self-test: mutants of the selection / ordering / determinism structure and benign refactors."""
from mlib import new

ALL, M, B = new("C02")
FSM = "src/fsm.rs"

# ------------------------------------------------------------------------------------------ mutants
M("c02-flip-state-document-order", "R02.2",
  (FSM, "            di if di > s2.doc_id => std::cmp::Ordering::Greater,", "            di if di < s2.doc_id => std::cmp::Ordering::Greater,"))
M("c02-exit-order-not-reversed", "R02.2",
  (FSM, "        // Reverse Document order\n        self.state_document_order(s2, s1)", "        // Reverse Document order\n        self.state_document_order(s1, s2)"))
M("c02-ancestors-searched-first", "R02.2",
  (FSM, "            states.push(*sid);\n            states.push_set(&self.getProperAncestors(*sid, 0));",
        "            states.push_set(&self.getProperAncestors(*sid, 0));\n            states.push(*sid);"))
M("c02-transitions-reverse-document-order", "R02.2",
  (FSM, "                    .sort(&|t1: &&Transition, t2: &&Transition| self.transition_document_order(t1, t2))\n                    .iterator()",
        "                    .sort(&|t1: &&Transition, t2: &&Transition| self.transition_document_order(t2, t1))\n                    .iterator()"))
M("c02-candidates-leak-across-states", "R02.2",
  (FSM, "        for state in atomicStates.iterator() {\n            let mut condT = Vec::new();\n",
        "        let mut condT = Vec::new();\n        for state in atomicStates.iterator() {\n"),
  (FSM, "            for ct in condT {\n                if self.conditionMatch(datamodel, ct) {\n                    enabledTransitions.add(ct);\n                    break;\n                }\n            }\n        }\n        enabledTransitions = self.removeConflictingTransitions(datamodel, &enabledTransitions);\n        #[cfg(feature = \"Trace_Method\")]\n        self.tracer\n            .trace_result(\"enabledTransitions\", &enabledTransitions);\n        #[cfg(feature = \"Trace_Method\")]\n        self.tracer.exit_method(\"selectTransitions\");",
        "            for ct in condT.clone() {\n                if self.conditionMatch(datamodel, ct) {\n                    enabledTransitions.add(ct);\n                    break;\n                }\n            }\n        }\n        enabledTransitions = self.removeConflictingTransitions(datamodel, &enabledTransitions);\n        #[cfg(feature = \"Trace_Method\")]\n        self.tracer\n            .trace_result(\"enabledTransitions\", &enabledTransitions);\n        #[cfg(feature = \"Trace_Method\")]\n        self.tracer.exit_method(\"selectTransitions\");"))
M("c02-invoke-phase-in-exit-order", "R02.2",
  (FSM, "                .statesToInvoke\n                .sort(&|s1, s2| self.state_entry_order(s1, s2));", "                .statesToInvoke\n                .sort(&|s1, s2| self.state_exit_order(s1, s2));"))
M("c02-no-first-match", "R02.3",
  (FSM, "                    enabledTransitions.add(ct);\n                    break;\n", "                    enabledTransitions.add(ct);\n", 1))
M("c02-inverted-event-test", "R02.3",
  (FSM, "if (!t.events.is_empty()) && t.nameMatch(event.name.as_str()) {", "if t.events.is_empty() || t.nameMatch(event.name.as_str()) {"))
M("c02-eventless-takes-evented", "R02.3",
  (FSM, "                    if t.events.is_empty() {\n                        condT.push(t.id);", "                    if !t.events.is_empty() {\n                        condT.push(t.id);"))
M("c02-condition-ignored", "R02.3",
  (FSM, "                if self.conditionMatch(datamodel, ct) {\n                    enabledTransitions.add(ct);\n                    break;\n                }",
        "                if self.conditionMatch(datamodel, ct) || ct > 0 {\n                    enabledTransitions.add(ct);\n                    break;\n                }"))
M("c02-preemption-branches-swapped", "R02.4",
  (FSM, "                    if self.isDescendant(t1.source, t2.source) {\n                        transitionsToRemove.add(tid2);\n                    } else {\n                        t1Preempted = true;\n                        break;\n                    }",
        "                    if self.isDescendant(t1.source, t2.source) {\n                        t1Preempted = true;\n                        break;\n                    } else {\n                        transitionsToRemove.add(tid2);\n                    }"))
M("c02-preempted-still-added", "R02.4",
  (FSM, "            if !t1Preempted {\n                for t3 in transitionsToRemove.toList().iterator() {\n                    filteredTransitions.delete(t3);\n                }\n                filteredTransitions.add(*tid1);\n            }",
        "            if !t1Preempted {\n                for t3 in transitionsToRemove.toList().iterator() {\n                    filteredTransitions.delete(t3);\n                }\n            }\n            filteredTransitions.add(*tid1);"))
M("c02-conflict-test-against-itself", "R02.4",
  (FSM, ".hasIntersection(&self.computeExitSet(datamodel, &List::from_array(&[*tid2])))", ".hasIntersection(&self.computeExitSet(datamodel, &List::from_array(&[*tid1])))"))
M("c02-microstep-content-before-exit", "R02.5",
  (FSM, "        self.exitStates(datamodel, enabledTransitions);\n        self.executeTransitionContent(datamodel, enabledTransitions);",
        "        self.executeTransitionContent(datamodel, enabledTransitions);\n        self.exitStates(datamodel, enabledTransitions);"))
M("c02-microstep-entry-skipped-on-a-path", "R02.5",
  (FSM, "        self.enterStates(datamodel, enabledTransitions);\n        #[cfg(feature = \"Trace_Method\")]\n        self.tracer.exit_method(\"microstep\");",
        "        if enabledTransitions.size() < 8 {\n            self.enterStates(datamodel, enabledTransitions);\n        }\n        #[cfg(feature = \"Trace_Method\")]\n        self.tracer.exit_method(\"microstep\");"))
M("c02-transition-content-in-hash-order", "R02.6",
  (FSM, "        for tid in enabledTransitions.iterator() {\n            let t = self.get_transition_by_id(*tid);\n            if t.content > 0 {",
        "        let tids: HashSet<TransitionId> = enabledTransitions.iterator().cloned().collect();\n        for tid in tids.iter() {\n            let t = self.get_transition_by_id(*tid);\n            if t.content > 0 {"))
M("c02-clock-decides", "R02.6",
  (FSM, "        for tid in enabledTransitions.iterator() {\n            let t = self.get_transition_by_id(*tid);\n            if t.content > 0 {",
        "        let now = std::time::SystemTime::now().duration_since(std::time::UNIX_EPOCH).unwrap();\n        if now.as_nanos() % 1000 == 7 {\n            return;\n        }\n        for tid in enabledTransitions.iterator() {\n            let t = self.get_transition_by_id(*tid);\n            if t.content > 0 {"))
M("c02-atomic-filter-dropped", "R02.1",
  (FSM, "            .filter_by(&|sid| -> bool { self.isAtomicStateId(sid) })\n", "            .filter_by(&|_sid| -> bool { true })\n"))

# ------------------------------------------------------------------------------------------ benign refactors
B("c02-benign-rename-locals",
  (FSM, "            for ct in condT {\n                if self.conditionMatch(datamodel, ct) {\n                    enabledTransitions.add(ct);\n                    break;\n                }\n            }\n        }\n        enabledTransitions = self.removeConflictingTransitions(datamodel, &enabledTransitions);\n        #[cfg(feature = \"Trace_Method\")]\n        self.tracer\n            .trace_result(\"enabledTransitions\", &enabledTransitions);\n        #[cfg(feature = \"Trace_Method\")]\n        self.tracer.exit_method(\"selectEventlessTransitions\");",
        "            for candidate in condT {\n                if self.conditionMatch(datamodel, candidate) {\n                    enabledTransitions.add(candidate);\n                    break;\n                }\n            }\n        }\n        enabledTransitions = self.removeConflictingTransitions(datamodel, &enabledTransitions);\n        #[cfg(feature = \"Trace_Method\")]\n        self.tracer\n            .trace_result(\"enabledTransitions\", &enabledTransitions);\n        #[cfg(feature = \"Trace_Method\")]\n        self.tracer.exit_method(\"selectEventlessTransitions\");"))
B("c02-benign-early-continue",
  (FSM, "                    if t.events.is_empty() {\n                        condT.push(t.id);\n                    }",
        "                    if !t.events.is_empty() {\n                        continue;\n                    }\n                    condT.push(t.id);"),
  (FSM, "                if self.conditionMatch(datamodel, ct) {\n                    enabledTransitions.add(ct);\n                    break;\n                }",
        "                if !self.conditionMatch(datamodel, ct) {\n                    continue;\n                }\n                enabledTransitions.add(ct);\n                break;"))
B("c02-benign-hoist-exit-sets",
  (FSM, "                if self\n                    .computeExitSet(datamodel, &List::from_array(&[*tid1]))\n                    .hasIntersection(&self.computeExitSet(datamodel, &List::from_array(&[*tid2])))\n                {",
        "                let exit1 = self.computeExitSet(datamodel, &List::from_array(&[*tid1]));\n                let exit2 = self.computeExitSet(datamodel, &List::from_array(&[*tid2]));\n                if exit1.hasIntersection(&exit2) {"))
B("c02-benign-comparator-via-cmp",
  (FSM, "        match s1.doc_id {\n            di if di > s2.doc_id => std::cmp::Ordering::Greater,\n            di if di == s2.doc_id => std::cmp::Ordering::Equal,\n            _ => std::cmp::Ordering::Less,\n        }\n    }\n\n    fn state_entry_order",
        "        s1.doc_id.cmp(&s2.doc_id)\n    }\n\n    fn state_entry_order"))
B("c02-benign-searched-list-as-expression",
  (FSM, "            let mut states: List<StateId> = List::new();\n            states.push(*sid);\n            states.push_set(&self.getProperAncestors(*sid, 0));\n",
        "            let ancestors = self.getProperAncestors(*sid, 0);\n            let states: List<StateId> = List::from_array(&[*sid]).append_set(&ancestors);\n"))
B("c02-benign-trace-in-microstep",
  (FSM, "        self.exitStates(datamodel, enabledTransitions);\n        self.executeTransitionContent(datamodel, enabledTransitions);",
        "        self.exitStates(datamodel, enabledTransitions);\n        debug!(\"states exited, running transition content\");\n        self.executeTransitionContent(datamodel, enabledTransitions);"))
