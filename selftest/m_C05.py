from mlib import new
ALL, M, B = new("C05")

W = "src/serializer/fsm_writer.rs"
R = "src/serializer/fsm_reader.rs"
PW = "src/serializer/default_protocol_writer.rs"
PR = "src/serializer/default_protocol_reader.rs"

# two string fields swapped on the reader side
M("c05-reader-swaps-fields", "W1", (R, "        value.expr = self.reader.read_string();\n        value.location = self.reader.read_string();",
                                    "        value.location = self.reader.read_string();\n        value.expr = self.reader.read_string();"))
# a field dropped on the writer side only
M("c05-writer-drops-field", "W1", (W, "        self.writer.write_str(&executable_content_for_each.index);\n", ""))
# a flag lost: the reader no longer tests the HISTORY flag but the writer still emits conditionally
M("c05-reader-ignores-flag", "W1", (R, "        if (flags & FSM_PROTOCOL_FLAG_HISTORY) != 0 {", "        if (flags & FSM_PROTOCOL_FLAG_INVOKE) != 0 {"))
# the writer sets the wrong flag bit for onexit
M("c05-writer-wrong-flag", "W1", (W, "                | if state.onexit.is_empty() {0} else {FSM_PROTOCOL_FLAG_ON_EXIT}", "                | if state.onexit.is_empty() {0} else {FSM_PROTOCOL_FLAG_ON_ENTRY}"))
# reader narrows a 32-bit id to 8 bits
M("c05-reader-narrows-id", "W5", (R, "    pub fn read_transition_id(&mut self) -> TransitionId {\n        self.reader.read_uint() as TransitionId", "    pub fn read_transition_id(&mut self) -> TransitionId {\n        self.reader.read_u8() as TransitionId"))
# executable content tag dispatched to the wrong reader
M("c05-dispatch-crossed", "W1", (R, "            executable_content::TYPE_RAISE => self.read_executable_content_raise(),\n            executable_content::TYPE_CANCEL => self.read_executable_content_cancel(),",
                                 "            executable_content::TYPE_RAISE => self.read_executable_content_cancel(),\n            executable_content::TYPE_CANCEL => self.read_executable_content_raise(),"))
# Data variant tag renumbered on the writer only
M("c05-data-tag-renumbered", "W1", (PW, "            Data::Error(s) => {\n                self.write_u8(7);", "            Data::Error(s) => {\n                self.write_u8(3);"))
# a new persisted field nobody serialises
M("c05-new-field-unserialised", "W2", ("src/fsm.rs", "pub struct DoneData {\n    /// content of \\<content\\> child\n    pub content: Option<CommonContent>,\n", "pub struct DoneData {\n    pub label: Option<String>,\n    /// content of \\<content\\> child\n    pub content: Option<CommonContent>,\n"),
  ("src/fsm.rs", "        DoneData {\n            content: None,\n            params: None,\n        }", "        DoneData {\n            content: None,\n            label: None,\n            params: None,\n        }"))
# integer type nibble given the wrong number of additional bytes in the reader
M("c05-reader-byte-count", "W3", (PR, "                        self.type_and_value.type_id = FSM_PROTOCOL_TYPE_INT_28BIT;\n                        self.type_and_value.number = (val & 0x0F) as u64;\n                        self.read_additional_number_bytes(3);",
                                  "                        self.type_and_value.type_id = FSM_PROTOCOL_TYPE_INT_28BIT;\n                        self.type_and_value.number = (val & 0x0F) as u64;\n                        self.read_additional_number_bytes(2);"))
# threshold widened beyond the bits of the encoding
M("c05-threshold-too-wide", "W4", (PW, "        } else if value < (1u64 << 20) {\n            self.write_type_and_value(FSM_PROTOCOL_TYPE_INT_20BIT, value, 20);", "        } else if value < (1u64 << 24) {\n            self.write_type_and_value(FSM_PROTOCOL_TYPE_INT_20BIT, value, 20);"))
# presence boolean polarity inverted on the reader (send content)
M("c05-presence-inverted", "W1", (R, "        let content_flag = self.reader.read_boolean();\n        if content_flag {", "        let content_flag = self.reader.read_boolean();\n        if !content_flag {"))
# the version constants drift apart
M("c05-version-drift", "W1", (W, "pub const FSM_PROTOCOL_WRITER_VERSION: &str = \"fsmW1.1\";", "pub const FSM_PROTOCOL_WRITER_VERSION: &str = \"fsmW1.2\";"))

B("c05-benign-local-rename", (R, "        let label = self.reader.read_string();\n        let expression = self.reader.read_data();\n        Box::new(Log::new(&Some(&label), expression))",
                              "        let lbl = self.reader.read_string();\n        let expr_data = self.reader.read_data();\n        Box::new(Log::new(&Some(&lbl), expr_data))"))
B("c05-benign-hoist-len", (W, "        self.writer.write_usize(strings.len());\n        for s in strings {", "        let count = strings.len();\n        self.writer.write_usize(count);\n        for s in strings {"))
B("c05-benign-if-let", (W, "        self.writer.write_boolean(value.content.is_some());\n        if value.content.is_some() {\n            self.write_common_content(value.content.as_ref().unwrap());\n        }",
                        "        if let Some(cc) = &value.content {\n            self.writer.write_boolean(true);\n            self.write_common_content(cc);\n        } else {\n            self.writer.write_boolean(false);\n        }"))
B("c05-benign-reader-temp", (R, "        invoke.autoforward = self.reader.read_boolean();", "        let af = self.reader.read_boolean();\n        invoke.autoforward = af;"))
