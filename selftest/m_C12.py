from mlib import new
ALL, M, B = new("C12")

FSM = "src/fsm.rs"
EC = "src/executable_content.rs"
SC = "src/event_io_processor/scxml_event_io_processor.rs"
EXE = "src/fsm_executor.rs"
DM = "src/datamodel/mod.rs"

# a `match None => {}` turned into unwrap() on the session thread
M("c12-child-session-unwrap", "R12.1", (FSM, "                match get_global!(datamodel).child_sessions.get(&invokeId) {\n                    None => {\n                        // TODO: Clarify, communication error?\n                    }\n                    Some(session) => {\n                        match session.sender.send(externalEvent.clone()) {\n                            Ok(_) => {}\n                            Err(_) => {\n                                // TODO: Clarify, communication error?\n                            }\n                        }\n                    }\n                }",
                                        "                get_global!(datamodel).child_sessions.get(&invokeId).unwrap().sender.send(externalEvent.clone()).unwrap();"))
# unknown invoke id in a send target panics instead of error.communication
M("c12-unknown-invoke-unwrap", "R12.1", (SC, "                            let session_id = match global_lock.child_sessions.get(invokeid) {\n                                None => {\n                                    error!(\n                                        \"InvokeId of target {} '{}' is not available.\",\n                                        invokeid, target\n                                    );\n                                    global_lock.enqueue_internal(Event::error_communication(&event));\n                                    return false;\n                                }\n                                Some(session) => session.session_id,\n                            };",
                                         "                            let session_id = global_lock.child_sessions.get(invokeid).unwrap().session_id;"))
# error event dropped on the malformed-target path
M("c12-malformed-target-silent", "R12.2", (SC, "                            Err(_err) => {\n                                error!(\"Send target '{}' has wrong format.\", target);\n                                global_lock.enqueue_internal(Event::error_communication(&event));\n                                false\n                            }",
                                           "                            Err(_err) => {\n                                false\n                            }"))
# illegal delay no longer reported
M("c12-negative-delay-silent", "R12.2", (EC, "            error!(\"Send: delay {} is negative\", self.delay_expr);\n            datamodel.internal_error_execution_for_event(&send_id, &fsm.caller_invoke_id);\n            return false;", "            return false;"))
# the Err of the executor no longer becomes error.communication
M("c12-send-error-swallowed", "R12.2", (SC, "                    Err(error) => {\n                        error!(\"Can't send to session {}. {}\", session_id, error);\n                        global_data_lock.enqueue_internal(Event::error_communication(&event));\n                        false\n                    }",
                                        "                    Err(_error) => {\n                        false\n                    }"))
# guard of an audited edge removed: If executes its else-branch lookup unconditionally
M("c12-else-content-unguarded", "R12.1", (EC, "        } else if self.else_content != 0 {", "        } else {"))
# file read under the session lock in Cancel
M("c12-io-under-session-lock", "R12.3", (FSM, "            let mut gd = get_global!(datamodel);\n\n            for s in statesToExit.iterator() {", "            let mut gd = get_global!(datamodel);\n            let _probe = std::fs::read_to_string(\"/proc/self/status\");\n\n            for s in statesToExit.iterator() {"))
# new index into a Vec with a computed index
M("c12-unchecked-index", "R12.1", (FSM, "        let itid = self.get_state_by_id(self.pseudo_root).initial;", "        let itid = self.states[(self.pseudo_root) as usize % 7].initial + self.get_state_by_id(self.pseudo_root).initial * 0 + self.get_state_by_id(self.pseudo_root).initial;"))

B("c12-benign-log-wording", (EC, "            error!(\"Send: delay {} is negative\", self.delay_expr);", "            error!(\"Send: negative delay '{}'\", self.delay_expr);"))
B("c12-benign-match-to-iflet", (FSM, "                match get_global!(datamodel).child_sessions.get(&invokeId) {\n                    None => {\n                        // TODO: Clarify, communication error?\n                    }\n                    Some(session) => {\n                        match session.sender.send(externalEvent.clone()) {\n                            Ok(_) => {}\n                            Err(_) => {\n                                // TODO: Clarify, communication error?\n                            }\n                        }\n                    }\n                }",
                                "                if let Some(session) = get_global!(datamodel).child_sessions.get(&invokeId) {\n                    let _ = session.sender.send(externalEvent.clone());\n                }"))
B("c12-benign-extra-guard", (EC, "        if delay_ms < 0 {", "        if delay_ms < 0 || delay_ms == i64::MIN {"))
