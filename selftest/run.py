#!/usr/bin/env python3
"""Self-test of the checker, both ways.

selftest/mutants.py lists small edits of /repo that break a property while still compiling
(every one must be reported, naming the expected rule) and behaviour-preserving refactors
(every one must be silent). Each edit is applied to a scratch copy of /repo's *current*
working tree outside /repo and /verif, the one relevant check is run against the copy, and
the copy is deleted. Edits whose anchor text no longer exists are skipped and counted.

usage: run.py [--only ID-substring] [--prop Cxx] [--jobs N] [--json out.json]
"""
import json
import os
import shutil
import subprocess
import sys
import tempfile
import concurrent.futures as cf

HERE = os.path.dirname(os.path.abspath(__file__))
VERIF = os.path.dirname(HERE)
sys.path.insert(0, HERE)
REPO = os.environ.get("RFSM_REPO", "/repo")


def apply_edit(root, edits):
    for (file, old, new, *rest) in edits:
        nth = rest[0] if rest else 0
        p = os.path.join(root, file)
        s = open(p, encoding="utf-8").read()
        idx = -1
        start = 0
        for _ in range(nth + 1):
            idx = s.find(old, start)
            if idx < 0:
                return False
            start = idx + 1
        s = s[:idx] + new + s[idx + len(old):]
        open(p, "w", encoding="utf-8").write(s)
    return True


def run_one(m, slot):
    base = os.environ.get("RFSM_SCRATCH", "/var/tmp/rfsm-selftest")
    os.makedirs(base, exist_ok=True)
    d = tempfile.mkdtemp(prefix="m-", dir=base)
    try:
        for f in ("Cargo.toml", "Cargo.lock"):
            shutil.copy(os.path.join(REPO, f), d)
        shutil.copytree(os.path.join(REPO, "src"), os.path.join(d, "src"))
        for extra in ("test", "examples", "schema"):
            # some sources include files relative to the crate root
            pass
        if not apply_edit(d, m["edits"]):
            return dict(m, result="skipped", detail="anchor text not found")
        ev = os.path.join(d, "evidence")
        os.makedirs(ev)
        env = dict(os.environ, RFSM_EVIDENCE_DIR=ev, RFSM_TARGET_DIR=os.path.join(VERIF, ".cache", "target-selftest-%d" % (slot + int(os.environ.get("RFSM_SELFTEST_SLOT_BASE", "0")))))
        if m["kind"] == "benign" and os.environ.get("RFSM_SELFTEST_CROSS") == "1" and "-repair-" not in m["id"]:
            # (`*-repair-*` entries repair a recorded defect: they change behaviour on purpose and only their own property's check
            #  is expected to stay silent)
            # a behaviour-preserving edit must be silent for EVERY property, not only for the one it was written for
            alarms = []
            for p in ["C%02d" % i for i in range(1, 21)]:
                r = subprocess.run([os.path.join(VERIF, "check"), p, "--repo", d], env=env, stdout=subprocess.PIPE, stderr=subprocess.STDOUT, text=True)
                if r.returncode == 2:
                    return dict(m, result="broken-build", detail=r.stdout[-1500:])
                if r.returncode == 1:
                    alarms.append(p + ": " + "; ".join(l.strip()[:160] for l in r.stdout.splitlines() if l.startswith("  R") or l.startswith("  W"))[:400])
            return dict(m, result="silent" if not alarms else "FALSE-ALARM", detail="\n".join(alarms))
        r = subprocess.run([os.path.join(VERIF, "check"), m["prop"], "--repo", d], env=env, stdout=subprocess.PIPE,
                           stderr=subprocess.STDOUT, text=True)
        out = r.stdout
        if r.returncode == 2:
            return dict(m, result="broken-build", detail=out[-1500:])
        viol = [l for l in out.splitlines() if l.startswith("  R") or l.startswith("  W")]
        if m["kind"] == "mutant":
            exp = m.get("expect", "")
            hit = r.returncode == 1 and any(exp in l for l in viol)
            return dict(m, result="caught" if hit else ("wrong-rule" if r.returncode == 1 else "MISSED"), detail="\n".join(viol[:6]))
        else:
            return dict(m, result="silent" if r.returncode == 0 else "FALSE-ALARM", detail="\n".join(viol[:6]))
    finally:
        shutil.rmtree(d, ignore_errors=True)


def main():
    import mutants
    import importlib
    for f in sorted(os.listdir(HERE)):
        if f.startswith("m_") and f.endswith(".py"):
            mod = importlib.import_module(f[:-3])
            mutants.ALL.extend(mod.ALL)
    args = sys.argv[1:]
    only = None
    prop = None
    jobs = 4
    out_json = None
    kind = None
    i = 0
    while i < len(args):
        if args[i] == "--only":
            only = args[i + 1]; i += 2
        elif args[i] == "--prop":
            prop = args[i + 1]; i += 2
        elif args[i] == "--jobs":
            jobs = int(args[i + 1]); i += 2
        elif args[i] == "--json":
            out_json = args[i + 1]; i += 2
        elif args[i] == "--kind":
            kind = args[i + 1]; i += 2
        else:
            i += 1
    ms = [m for m in mutants.ALL if (only is None or only in m["id"]) and (prop is None or m["prop"] == prop) and (kind is None or m["kind"] == kind)]
    results = []
    with cf.ThreadPoolExecutor(max_workers=jobs) as ex:
        futs = [ex.submit(run_one, m, k % jobs) for k, m in enumerate(ms)]
        for f in futs:
            r = f.result()
            results.append(r)
            first = ((r.get("detail") or "").splitlines() or [""])[0][:150]
            print("%-12s %-4s %-44s %s" % (r["result"], r["prop"], r["id"], first if r["result"] not in ("caught", "silent") else ""))
    summary = {}
    for r in results:
        summary[r["result"]] = summary.get(r["result"], 0) + 1
    print(summary)
    if out_json:
        json.dump({"summary": summary, "results": [{k: v for k, v in r.items() if k != "edits"} for r in results]}, open(out_json, "w"), indent=1)
    bad = [r for r in results if r["result"] in ("MISSED", "FALSE-ALARM", "wrong-rule")]
    return 1 if bad else 0


if __name__ == "__main__":
    sys.exit(main())
