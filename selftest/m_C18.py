from mlib import new
ALL, M, B = new("C18")

R = "src/serializer/fsm_reader.rs"
PW = "src/serializer/default_protocol_writer.rs"
PR = "src/serializer/default_protocol_reader.rs"

# a read primitive forgets the sticky error test
M("c18-boolean-ignores-error-state", "W9", (PR, "    fn read_boolean(&mut self) -> bool {\n        if self.ok {", "    fn read_boolean(&mut self) -> bool {\n        if true {"))
# the error flag is cleared again after a failed read
M("c18-error-state-reset", "W9", (PR, "    fn read_data(&mut self) -> Data {\n        let what = self.read_u8();", "    fn read_data(&mut self) -> Data {\n        self.ok = true;\n        let what = self.read_u8();"))
# an io error is swallowed in the writer
M("c18-flush-error-dropped", "W8", (PW, "            let r = self.writer.flush();\n            self.eval_result(r);", "            let _ = self.writer.flush();"))
# the version-mismatch branch no longer distinguishes a read error, and a second Ok path appears
M("c18-ok-on-version-mismatch", "W6", (R, "        } else if self.reader.has_error() {\n            Err(\"Can't read\".to_string())\n        } else {", "        } else if self.reader.has_error() {\n            Ok(Box::new(fsm))\n        } else {"))
# new unchecked index in the reader
M("c18-unchecked-slice", "W7", (PR, "                        let us = (val & 0x0F) as usize;\n                        match self.reader.read_exact(&mut self.buffer[0..us]) {", "                        let us = (val & 0x0F) as usize;\n                        let _probe = self.buffer[us * 512];\n                        match self.reader.read_exact(&mut self.buffer[0..us]) {"))
# unknown history ordinal now panics (masked ordinal no longer covered)
M("c18-transition-type-unmasked", "W7", (R, "        transition.transition_type = TransitionType::from_ordinal(flags & 1);", "        transition.transition_type = TransitionType::from_ordinal(flags);"))
# guard removed from an audited edge: the byte loop no longer tests length > 0
M("c18-byte-loop-unguarded", "W", (PR, "        while length > 0 && self.ok {", "        while self.ok {"))

B("c18-benign-rename", (PR, "                        let us = (val & 0x0F) as usize;\n                        match self.reader.read_exact(&mut self.buffer[0..us]) {\n                            Ok(_) => match std::str::from_utf8(&self.buffer[0..us]) {",
                        "                        let short_len = (val & 0x0F) as usize;\n                        match self.reader.read_exact(&mut self.buffer[0..short_len]) {\n                            Ok(_) => match std::str::from_utf8(&self.buffer[0..short_len]) {"))
B("c18-benign-early-return", (PR, "    fn read_boolean(&mut self) -> bool {\n        if self.ok {", "    fn read_boolean(&mut self) -> bool {\n        if self.ok && !self.has_error() {"))
