"""C03 self-test: mutants of the run-to-completion structure and benign refactors."""
from mlib import new

ALL, M, B = new("C03")
FSM = "src/fsm.rs"
EXE = "src/executable_content.rs"
SCX = "src/event_io_processor/scxml_event_io_processor.rs"

# ------------------------------------------------------------------------------------------ mutants
M("c03-internal-queue-before-eventless", "R03.1",
  (FSM, "                enabledTransitions = self.selectEventlessTransitions(datamodel);\n                if enabledTransitions.isEmpty() {\n                    if get_global!(datamodel).internalQueue.isEmpty() {\n                        macrostepDone = true;\n                    } else {",
        "                enabledTransitions = OrderedSet::new();\n                if enabledTransitions.isEmpty() {\n                    if get_global!(datamodel).internalQueue.isEmpty() {\n                        enabledTransitions = self.selectEventlessTransitions(datamodel);\n                        macrostepDone = enabledTransitions.isEmpty();\n                    } else {"))
M("c03-dequeue-without-eventless-test", "R03.1",
  (FSM, "                if enabledTransitions.isEmpty() {\n                    if get_global!(datamodel).internalQueue.isEmpty() {\n                        macrostepDone = true;\n                    } else {",
        "                if enabledTransitions.isEmpty() || enabledTransitions.size() > 1 {\n                    if get_global!(datamodel).internalQueue.isEmpty() {\n                        macrostepDone = enabledTransitions.isEmpty();\n                    } else {"))
M("c03-recv-with-internal-events-pending", "R03.2",
  (FSM, "                    if !global_lock.internalQueue.isEmpty() {\n                        continue;\n                    }\n", ""))
M("c03-macrostep-done-after-one-internal-event", "R03.2",
  (FSM, "                        enabledTransitions = self.selectTransitions(datamodel, &internalEvent);\n                    }",
        "                        enabledTransitions = self.selectTransitions(datamodel, &internalEvent);\n                        macrostepDone = true;\n                    }"))
M("c03-macrostep-loop-left-early", "R03.2",
  (FSM, "                        enabledTransitions = self.selectTransitions(datamodel, &internalEvent);\n                    }",
        "                        enabledTransitions = self.selectTransitions(datamodel, &internalEvent);\n                        if enabledTransitions.isEmpty() {\n                            break;\n                        }\n                    }"))
M("c03-lifo-dequeue", "R03.3",
  (FSM, "        self.data.pop_front().unwrap()", "        self.data.pop_back().unwrap()"))
M("c03-enqueue-at-front", "R03.3",
  (FSM, "        self.data.push_back(e);", "        self.data.push_front(e);"))
M("c03-internal-queue-cleared-elsewhere", "R03.3",
  (FSM, "        get_global!(datamodel).child_sessions.remove(invoke_id);\n        datamodel.send(",
        "        get_global!(datamodel).child_sessions.remove(invoke_id);\n        get_global!(datamodel).internalQueue.clear();\n        datamodel.send("))
M("c03-raise-routed-externally", "R03.4",
  (EXE, "        get_global!(datamodel).enqueue_internal(event);\n        true", "        get_global!(datamodel).externalQueue.enqueue(Box::new(event));\n        true"))
M("c03-internal-target-routed-externally", "R03.4",
  (SCX, "                event.etype = EventType::internal;\n                global_lock.enqueue_internal(event);", "                event.etype = EventType::internal;\n                global_lock.externalQueue.enqueue(Box::new(event));"))
M("c03-empty-target-routed-internally", "R03.4",
  (SCX, "                global_lock.externalQueue.enqueue(Box::new(event));\n                true", "                global_lock.enqueue_internal(event);\n                true"))
M("c03-unconditional-microstep", "R03.5",
  (FSM, "            if !enabledTransitions.isEmpty() {\n                self.microstep(datamodel, &enabledTransitions.toList());\n            }",
        "            {\n                self.microstep(datamodel, &enabledTransitions.toList());\n            }"))
M("c03-microstep-polarity-inverted", "R03.5",
  (FSM, "                if !enabledTransitions.isEmpty() {\n                    self.microstep(datamodel, &enabledTransitions.toList())\n                }",
        "                if enabledTransitions.isEmpty() {\n                    self.microstep(datamodel, &enabledTransitions.toList())\n                }"))
M("c03-event-set-after-selection", "R03.6",
  (FSM, "            datamodel.set_event(&externalEvent);\n            for finalizeContentId in toFinalize {", "            for finalizeContentId in toFinalize {"),
  (FSM, "            enabledTransitions = self.selectTransitions(datamodel, &externalEvent);\n", "            enabledTransitions = self.selectTransitions(datamodel, &externalEvent);\n            datamodel.set_event(&externalEvent);\n"))
M("c03-internal-event-not-published", "R03.6",
  (FSM, "                        datamodel.set_event(&internalEvent);\n", ""))
M("c03-ignored-event-still-processed", "R03.6",
  (FSM, "                                #[cfg(feature = \"Debug\")]\n                                debug!(\n                                    \"Ignore event {} from invoke {}\",\n                                    externalEventTmp.name, invoke_id\n                                );",
        "                                externalEvent = Box::new(Event::new_simple(\"ignored\"));\n                                break;"))

# ------------------------------------------------------------------------------------------ benign refactors
B("c03-benign-rename-flag",
  (FSM, "            let mut macrostepDone = false;", "            let mut done = false;"),
  (FSM, "            while get_global!(datamodel).running && !macrostepDone {", "            while get_global!(datamodel).running && !done {"),
  (FSM, "                        macrostepDone = true;", "                        done = true;"))
B("c03-benign-hoisted-queue-test",
  (FSM, "                    if get_global!(datamodel).internalQueue.isEmpty() {\n                        macrostepDone = true;",
        "                    let nothing_queued = get_global!(datamodel).internalQueue.isEmpty();\n                    if nothing_queued {\n                        macrostepDone = true;"))
B("c03-benign-early-continue-and-hoisted-list",
  (FSM, "                if !enabledTransitions.isEmpty() {\n                    self.microstep(datamodel, &enabledTransitions.toList())\n                }",
        "                if enabledTransitions.isEmpty() {\n                    continue;\n                }\n                let transitions = enabledTransitions.toList();\n                self.microstep(datamodel, &transitions);"))
B("c03-benign-extra-trace",
  (FSM, "                        macrostepDone = true;\n", "                        macrostepDone = true;\n                        debug!(\"macrostep complete\");\n"),
  (EXE, "        get_global!(datamodel).enqueue_internal(event);\n        true", "        debug!(\"raise {}\", self.event);\n        get_global!(datamodel).enqueue_internal(event);\n        true"))
B("c03-benign-guard-in-local",
  (EXE, "        get_global!(datamodel).enqueue_internal(event);\n        true", "        let mut global = get_global!(datamodel);\n        global.enqueue_internal(event);\n        true"),
  (FSM, "        get_global!(datamodel).internalQueue.enqueue(event);", "        let mut global = get_global!(datamodel);\n        global.internalQueue.enqueue(event);"))
