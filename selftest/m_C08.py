"""C08 mutants (must be caught by the named rule) and benign refactors (must stay silent)."""
from mlib import new

ALL, M, B = new("C08")

EC = "src/executable_content.rs"
DMOD = "src/datamodel/mod.rs"
RF = "src/datamodel/expression_engine.rs"
EJ = "src/datamodel/ecma_script.rs"
FSM = "src/fsm.rs"

# ---------------------------------------------------------------------------------------------- R08.1
M("c08-execcontent-reversed", "R08.1", (RF, "        for e in ec.unwrap().iter() {\n            if !e.execute(self, fsm) {",
                                        "        for e in ec.unwrap().iter().rev() {\n            if !e.execute(self, fsm) {"))
M("c08-foreach-body-ignores-false", "R08.1", (EC, "                for e in fsm.executableContent.get(&self.content).unwrap() {\n                    if !e.execute(datamodel, fsm) {\n                        return false;",
                                              "                for e in fsm.executableContent.get(&self.content).unwrap() {\n                    if !e.execute(datamodel, fsm) {\n                        break;", 1))
M("c08-ecma-first-element-only", "R08.1", (EJ, "        for e in ec.unwrap().iter() {\n            if !self.execute_content(fsm, e.as_ref()) {",
                                           "        for e in ec.unwrap().iter().take(1) {\n            if !self.execute_content(fsm, e.as_ref()) {"))
M("c08-script-continues-after-false", "R08.1", (EC, "            if !datamodel.executeContent(fsm, *s) {\n                return false;\n            }",
                                                "            datamodel.executeContent(fsm, *s);"))
# ---------------------------------------------------------------------------------------------- R08.2
M("c08-if-branches-swapped", "R08.2", (EC, "        if r {\n            if self.content != 0 {", "        if !r {\n            if self.content != 0 {"))
M("c08-if-err-counts-as-true", "R08.2", (EC, "                warn!(\"Condition {} can't be evaluated. {}\", self.condition, e);\n                datamodel.internal_error_execution();\n                false",
                                         "                warn!(\"Condition {} can't be evaluated. {}\", self.condition, e);\n                datamodel.internal_error_execution();\n                true"))
M("c08-if-else-runs-then-content", "R08.2", (EC, "            for e in fsm.executableContent.get(&self.else_content).unwrap() {",
                                             "            for e in fsm.executableContent.get(&self.content).unwrap() {"))
# ---------------------------------------------------------------------------------------------- R08.3
M("c08-conditionmatch-no-error-event", "R08.3", (FSM, "                Err(_e) => {\n                    datamodel.internal_error_execution();\n                    false",
                                                 "                Err(_e) => {\n                    false"))
M("c08-get-by-location-no-error-event", "R08.3", (RF, "            Err(msg) => {\n                self.internal_error_execution();\n                Err(msg)",
                                                  "            Err(msg) => {\n                Err(msg)"))
M("c08-assign-error-flag-inverted", "R08.3", (RF, "        if !r {\n            // W3C says:\\", "        if r {\n            // W3C says:\\"))
M("c08-send-type-error-silent", "R08.3", (EC, "                error!(\"Failed to evaluate send type: {}\", err);\n                datamodel.internal_error_execution_for_event(&send_id, &fsm.caller_invoke_id);",
                                          "                error!(\"Failed to evaluate send type: {}\", err);"))
M("c08-content-expr-error-silent", "R08.3", (DMOD, "                                error!(\"content expr '{}' is invalid ({})\", expr, msg);\n                                self.internal_error_execution();",
                                             "                                error!(\"content expr '{}' is invalid ({})\", expr, msg);"))
M("c08-ecma-assign-error-silent", "R08.3", (EJ, "                    .as_str(),\n                );\n\n                self.internal_error_execution();\n                false",
                                            "                    .as_str(),\n                );\n\n                false"))
# ---------------------------------------------------------------------------------------------- R08.4
M("c08-set-arc-overwrites-readonly", "R08.4", (DMOD, "            if old.get().is_readonly() {\n                #[cfg(feature = \"Debug\")]\n                debug!(\"Can't set read-only {}\", old.key());\n                false\n            } else {\n                old.insert(data);\n                true\n            }",
                                               "            old.insert(data);\n            true"))
M("c08-assign-allows-undefined", "R08.4", (RF, "        self.assign_internal(left_expr, right_expr, false)", "        self.assign_internal(left_expr, right_expr, true)"))
M("c08-assign-arguments-swapped", "R08.4", (EC, "        datamodel.assign(&self.location, &self.expr)", "        datamodel.assign(&self.expr, &self.location)"))
M("c08-expression-assign-ignores-readonly", "R08.4", ("src/expression_engine/expressions.rs", "                                if v.is_readonly() {\n                                    Err(format!(\"Can't set read-only {v}\"))\n                                } else {",
                                                      "                                if false {\n                                    Err(format!(\"Can't set read-only {v}\"))\n                                } else {"))
# ---------------------------------------------------------------------------------------------- R08.5
M("c08-foreach-item-bound-after-body", "R08.5", (RF, "                                self.set_arc(item_name, data.clone(), true);\n                                if !index.is_empty() {\n                                    self.set(index, Data::Integer(idx), true);\n                                }\n                                if !execute_body(self) {\n                                    return false;\n                                }",
                                                 "                                if !index.is_empty() {\n                                    self.set(index, Data::Integer(idx), true);\n                                }\n                                if !execute_body(self) {\n                                    return false;\n                                }\n                                self.set_arc(item_name, data.clone(), true);"))
M("c08-foreach-index-never-advances", "R08.5", (RF, "                                if !execute_body(self) {\n                                    return false;\n                                }\n                                idx += 1;",
                                                "                                if !execute_body(self) {\n                                    return false;\n                                }"))
M("c08-ecma-foreach-index-not-set", "R08.5", (EJ, "                                                if !index.is_empty() {\n                                                    self.set_js_property(index, idx);\n                                                }\n", ""))
# ---------------------------------------------------------------------------------------------- R08.6
M("c08-raise-external-type", "R08.6", (EC, "let event = Event::new(\"\", &self.event, None, None, EventType::internal);",
                                       "let event = Event::new(\"\", &self.event, None, None, EventType::external);"))
M("c08-raise-only-nonempty", "R08.6", (EC, "        get_global!(datamodel).enqueue_internal(event);\n        true",
                                       "        if self.event.len() > 8 {\n            get_global!(datamodel).enqueue_internal(event);\n        }\n        true"))

# ---------------------------------------------------------------------------------------------- benign
B("c08-benign-hoist-condition-result", (FSM, "            match datamodel.execute_condition(&cond) {\n                Ok(v) => v,",
                                        "            let evaluated = datamodel.execute_condition(&cond);\n            match evaluated {\n                Ok(v) => v,"))
B("c08-benign-rename-if-locals", (EC, "        let r = match datamodel.execute_condition(&self.condition) {", "        let cond_value = match datamodel.execute_condition(&self.condition) {"),
  (EC, "        if r {\n            if self.content != 0 {", "        if cond_value {\n            if self.content != 0 {"))
B("c08-benign-extract-error-helper", (FSM, "    fn conditionMatch(&mut self, datamodel: &mut dyn Datamodel, tid: TransitionId) -> bool {",
                                      "    fn condition_failed(datamodel: &mut dyn Datamodel) -> bool {\n        datamodel.internal_error_execution();\n        false\n    }\n\n    #[allow(non_snake_case)]\n    fn conditionMatch(&mut self, datamodel: &mut dyn Datamodel, tid: TransitionId) -> bool {"),
  (FSM, "                Err(_e) => {\n                    datamodel.internal_error_execution();\n                    false\n                }", "                Err(_e) => Self::condition_failed(datamodel),"))
B("c08-benign-trace-in-loop", (RF, "        for e in ec.unwrap().iter() {\n            if !e.execute(self, fsm) {",
                               "        for e in ec.unwrap().iter() {\n            info!(\"executing one element of block {}\", content_id);\n            if !e.execute(self, fsm) {"))
B("c08-benign-early-return-foreach-body", (EC, "            if self.content != 0 {\n                for e in fsm.executableContent.get(&self.content).unwrap() {\n                    if !e.execute(datamodel, fsm) {\n                        return false;\n                    }\n                }\n            }\n            true\n        })",
                                           "            if self.content == 0 {\n                return true;\n            }\n            for e in fsm.executableContent.get(&self.content).unwrap() {\n                if !e.execute(datamodel, fsm) {\n                    return false;\n                }\n            }\n            true\n        })"))
B("c08-benign-hoist-then-list", (EC, "                for e in fsm.executableContent.get(&self.content).unwrap() {\n                    if !e.execute(datamodel, fsm) {\n                        return false;\n                    }\n                }\n            }\n        } else if",
                                 "                let then_list = fsm.executableContent.get(&self.content).unwrap();\n                for e in then_list {\n                    if !e.execute(datamodel, fsm) {\n                        return false;\n                    }\n                }\n            }\n        } else if"))
B("c08-benign-send-type-match-to-iflet", (EC, "        let type_val = match type_result {\n            Ok(val) => val,\n            Err(err) => {\n                error!(\"Failed to evaluate send type: {}\", err);\n                datamodel.internal_error_execution_for_event(&send_id, &fsm.caller_invoke_id);\n                return false;\n            }\n        };",
                                          "        let type_val = if let Ok(val) = type_result {\n            val\n        } else {\n            error!(\"Failed to evaluate send type\");\n            datamodel.internal_error_execution_for_event(&send_id, &fsm.caller_invoke_id);\n            return false;\n        };"))
