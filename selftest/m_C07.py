"""C07 self-test: mutants (must be caught by the named rule) and benign refactors (must stay silent).
The two end-to-end tests of the pinned suite end in a top-level final and compare its name only; no mutant
below changes that path (no hang, same final state), so the 57 tests stay green."""
from mlib import new

ALL, M, B = new("C07")
FSM = "src/fsm.rs"

# ------------------------------------------------------------------------------------------ mutants
M("c07-done-state-names-the-final-state", "R07.1",
  (FSM, "                            \"done.state.\",\n                            &parentS.name,", "                            \"done.state.\",\n                            &state_s.name,"))
M("c07-parallel-done-without-completion-test", "R07.1",
  (FSM, "                    if self.isParallelState(grandparent)\n                        && self\n                            .getChildStates(grandparent)\n"
        "                            .every(&|s: &StateId| -> bool { self.isInFinalState(datamodel, *s) })\n                    {",
        "                    if self.isParallelState(grandparent) {"))
M("c07-donedata-dropped", "R07.1",
  (FSM, "                            &parentS.name,\n                            param_values,\n                            content,",
        "                            &parentS.name,\n                            None,\n                            None,"))
M("c07-nested-final-ends-session", "R07.1",
  (FSM, "                } else {\n                    let parentS = self.get_state_by_id(parent);",
        "                } else {\n                    get_global!(datamodel).running = false;\n                    let parentS = self.get_state_by_id(parent);"))
M("c07-parallel-done-tests-the-parent", "R07.1",
  (FSM, "                            .getChildStates(grandparent)\n                            .every(", "                            .getChildStates(parent)\n                            .every("))
M("c07-in-final-ignores-activity", "R07.2",
  (FSM, "                self.isFinalStateId(*cs)\n                    && datamodel\n                        .global_s()\n                        .lock()\n                        .unwrap()\n"
        "                        .configuration\n                        .isMember(cs)\n", "                self.isFinalStateId(*cs)\n"))
M("c07-shutdown-in-entry-order", "R07.2",
  (FSM, "                    .sort(&|s1, s2| self.state_exit_order(s1, s2));\n            }\n\n            let mut session_id_list",
        "                    .sort(&|s1, s2| self.state_entry_order(s1, s2));\n            }\n\n            let mut session_id_list"))
M("c07-done-invoke-also-on-cancel", "R07.2",
  (FSM, "                if self.isFinalState(s) && self.isSCXMLElement(s.parent) {\n                    self.returnDoneEvent",
        "                if self.isSCXMLElement(s.parent) {\n                    self.returnDoneEvent"))
M("c07-onexit-after-removal", "R07.2",
  (FSM, "            for ct in content {\n                self.executeContent(datamodel, ct);\n            }\n            get_global!(datamodel).configuration.delete(sid);\n",
        "            get_global!(datamodel).configuration.delete(sid);\n            for ct in content {\n                self.executeContent(datamodel, ct);\n            }\n"))
M("c07-cancelled-session-processes-the-event", "R07.3",
  (FSM, "                    get_global!(datamodel).running = false;\n                    continue;\n", "                    get_global!(datamodel).running = false;\n"))
M("c07-invokes-started-after-final", "R07.3",
  (FSM, "            if !get_global!(datamodel).running {\n                break;\n            }\n", ""),
  (FSM, "            let externalEvent;\n", "            if !get_global!(datamodel).running {\n                break;\n            }\n            let externalEvent;\n"))
M("c07-cancel-matched-by-prefix", "R07.3",
  (FSM, "        ev.name.eq(EVENT_CANCEL_SESSION)", "        ev.name.starts_with(\"error.platform\")"))
M("c07-exit-interpreter-skipped-on-cancel", "R07.3",
  (FSM, "                    get_global!(datamodel).running = false;\n                    continue;\n", "                    get_global!(datamodel).running = false;\n                    return;\n"))
M("c07-done-invoke-without-invokeid", "R07.4",
  (FSM, "                        event.invoke_id = Some(invoke_id);", "                        event.invoke_id = None;"))
M("c07-done-invoke-wrong-prefix", "R07.4",
  (FSM, "                            EVENT_DONE_INVOKE_PREFIX,\n                            &invoke_id,", "                            \"done.state.\",\n                            &invoke_id,"))
M("c07-final-configuration-from-wrong-set", "R07.4",
  (FSM, "                    for sid in global.configuration.iterator() {\n                        fc.push(", "                    for sid in global.statesToInvoke.iterator() {\n                        fc.push("))

# ------------------------------------------------------------------------------------------ benign refactors
B("c07-benign-inline-parent-lookup",
  (FSM, "                    let stateParent = self.get_state_by_id(parent);\n                    let grandparent: StateId = stateParent.parent;",
        "                    let grandparent: StateId = self.get_state_by_id(parent).parent;"))
B("c07-benign-cancel-name-compared-with-eq-operator",
  (FSM, "        ev.name.eq(EVENT_CANCEL_SESSION)", "        ev.name == EVENT_CANCEL_SESSION"))
B("c07-benign-hoisted-running-test-and-trace",
  (FSM, "            if !get_global!(datamodel).running {\n                break;\n            }\n",
        "            let still_running = get_global!(datamodel).running;\n            if !still_running {\n                debug!(\"macrostep ended the session\");\n                break;\n            }\n"))
B("c07-benign-unconditional-cancel-loop",
  (FSM, "            if !session_id_list.is_empty() {\n                for session_id in session_id_list {", "            {\n                for session_id in session_id_list {"))
B("c07-benign-early-return-in-return-done-event",
  (FSM, "            parent_session_id = global.parent_session_id;\n        }\n        match parent_session_id {",
        "            parent_session_id = global.parent_session_id;\n        }\n        if parent_session_id.is_none() {\n            return;\n        }\n        match parent_session_id {"))
B("c07-benign-final-test-hoisted",
  (FSM, "            if self.isFinalStateId(*s) {\n                let state_s = self.get_state_by_id(*s);",
        "            let entered_is_final = self.isFinalStateId(*s);\n            if entered_is_final {\n                let state_s = self.get_state_by_id(*s);"))
