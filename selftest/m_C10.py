"""C10 mutants / benign refactors (rfsm-expression semantics)."""
from mlib import new

ALL, M, B = new("C10")

P = "src/expression_engine/parser.rs"
X = "src/expression_engine/expressions.rs"
L = "src/expression_engine/lexer.rs"
D = "src/datamodel/mod.rs"
E = "src/datamodel/expression_engine.rs"

# ---- R10.1 priority classes
M("c10-plus-as-tight-as-multiply", "R10.1", (P, "Operator::Plus => 6,", "Operator::Plus => 5,"))
M("c10-equality-above-relational", "R10.1", (P, "Operator::Equal => 10,\n                            Operator::NotEqual => 10,",
                                                "Operator::Equal => 8,\n                            Operator::NotEqual => 8,"))
# ---- R10.2 associativity
M("c10-member-access-right-assoc", "R10.2", (P, "if 2 < best_idx_prio {", "if 2 <= best_idx_prio {"))
M("c10-strict-tiebreak-for-all", "R10.2", (P, "                        let right_to_left = matches!(\n                            operator,\n                            Operator::Not | Operator::Assign | Operator::AssignUndefined\n                        );\n                        if prio < best_idx_prio || (right_to_left && prio == best_idx_prio) {",
                                              "                        if prio < best_idx_prio {"))
M("c10-scan-from-the-right", "R10.2", (P, "        let mut si = 0;\n        while si < stack.len() {\n            match &stack[si] {",
                                          "        let mut si = stack.len();\n        while si > 0 {\n            si -= 1;\n            match &stack[si] {"),
  (P, "                ExpressionParserItem::SExpression(_) => {}\n            }\n            si += 1;",
      "                ExpressionParserItem::SExpression(_) => {}\n            }"))
# ---- R10.3 dispatch / operand order / lexer
M("c10-lessequal-uses-less", "R10.3", (X, "Operator::LessEqual => operation_less_equal(left, right),", "Operator::LessEqual => operation_less(left, right),"))
M("c10-fold-operands-swapped", "R10.3", (P, "Ok(Box::new(ExpressionOperator::new(op.clone(), le, re)))", "Ok(Box::new(ExpressionOperator::new(op.clone(), re, le)))"))
M("c10-ctor-fields-swapped", "R10.3", (X, "        ExpressionOperator {\n            left,\n            right,\n            operator: op,\n        }",
                                          "        ExpressionOperator {\n            left: right,\n            right: left,\n            operator: op,\n        }"))
M("c10-fold-neighbours-swapped", "R10.3", (P, "            let right = stack.remove(idx + 1);\n            stack.remove(idx);\n            let left = stack.remove(idx - 1);",
                                              "            let left = stack.remove(idx + 1);\n            stack.remove(idx);\n            let right = stack.remove(idx - 1);"))
M("c10-questionmark-not-a-stop", "R10.3", (L, "'<' | '>' | '=' | '%' | '?' |\n            // Brackets", "'<' | '>' | '=' | '%' |\n            // Brackets"))
M("c10-execute-swaps-sides", "R10.3", (X, "            Self::operation(\n                &left_result.lock().unwrap(),\n                &self.operator,\n                right_result.lock().unwrap().deref(),\n            )",
                                          "            Self::operation(\n                &right_result.lock().unwrap(),\n                &self.operator,\n                left_result.lock().unwrap().deref(),\n            )"))
# ---- R10.4 numeric tower
M("c10-wrapping-add", "R10.4", (D, "Data::Integer(i1.saturating_add(*i2))", "Data::Integer(i1.wrapping_add(*i2))"))
M("c10-mixed-minus-reversed", "R10.4", (D, "(Data::Integer(d1), Data::Double(d2)) => Data::Double((*d1 as f64) - d2),", "(Data::Integer(d1), Data::Double(d2)) => Data::Double(d2 - (*d1 as f64)),"))
M("c10-integer-product-as-double", "R10.4", (D, "Data::Integer(i1.saturating_mul(*i2))", "Data::Double((*i1 as f64) * (*i2 as f64))"))
M("c10-integer-division", "R10.4", (D, "        let right_value = right.as_number();\n        let r = left.as_number() / right_value;",
                                       "        if let (Data::Integer(a), Data::Integer(b)) = (left, right) {\n            if *b != 0 {\n                return Data::Integer(a.wrapping_div(*b));\n            }\n        }\n        let right_value = right.as_number();\n        let r = left.as_number() / right_value;"))
# ---- R10.5 cache equivalence
M("c10-getcopy-assign-swapped", "R10.5", (X, "        Box::new(ExpressionAssign::new(\n            self.left.get_copy(),\n            self.right.get_copy(),\n        ))",
                                             "        Box::new(ExpressionAssign::new(\n            self.right.get_copy(),\n            self.left.get_copy(),\n        ))"))
M("c10-getcopy-sequence-truncated", "R10.5", (X, "        for e in &self.expressions {\n            v.push(e.get_copy());\n        }",
                                                 "        if let Some(e) = self.expressions.last() {\n            v.push(e.get_copy());\n        }"))
M("c10-getcopy-map-key-for-value", "R10.5", (X, "mc.push((key.get_copy(), val.get_copy()));", "mc.push((key.get_copy(), key.get_copy()));"))
M("c10-cache-key-by-length", "R10.5", (E, ".insert(source.source_id, expression.get_copy());", ".insert(source.source.len(), expression.get_copy());"))
M("c10-concatenated-source-gets-id-1", "R10.5", (D, "                r.push_str(right.to_string().as_str());\n                Data::Source(SourceCode::new_move(r, 0))",
                                                    "                r.push_str(right.to_string().as_str());\n                Data::Source(SourceCode::new_move(r, 1))"))

# ---- benign refactors
B("c10-benign-rename-prio-local", (P, "let prio = match operator {", "let op_prio = match operator {"),
  (P, "                        if prio < best_idx_prio || (right_to_left && prio == best_idx_prio) {\n                            best_idx = si;\n                            best_idx_prio = prio;",
      "                        if op_prio < best_idx_prio || (right_to_left && op_prio == best_idx_prio) {\n                            best_idx = si;\n                            best_idx_prio = op_prio;"))
B("c10-benign-extract-priority-helper",
  (P, "                        let prio = match operator {\n                            Operator::Not => 3u8,", "                        let prio = Self::priority_of(operator);\n                        let _unused = match operator {\n                            Operator::Not => 3u8,"),
  (P, "    /// Tries to create an expression from the current contents of the parser-stack.\n",
      "    fn priority_of(operator: &Operator) -> u8 {\n        match operator {\n            Operator::Not => 3u8,\n            Operator::And | Operator::Multiply | Operator::Divide | Operator::Modulus => 5,\n            Operator::Or | Operator::Plus | Operator::Minus => 6,\n            Operator::Less | Operator::LessEqual | Operator::Greater | Operator::GreaterEqual => 9,\n            Operator::Equal | Operator::NotEqual => 10,\n            Operator::Assign | Operator::AssignUndefined => 16,\n        }\n    }\n\n    /// Tries to create an expression from the current contents of the parser-stack.\n"))
B("c10-benign-hoist-lets-in-getcopy", (X, "        Box::new(ExpressionIndex::new(\n            self.left.get_copy(),\n            self.index.get_copy(),\n        ))",
                                          "        let i = self.index.get_copy();\n        let l = self.left.get_copy();\n        Box::new(ExpressionIndex::new(l, i))"))
B("c10-benign-early-return-in-compile", (E, "        if source.source_id == 0 {\n            ExpressionParser::parse(source.source.clone())\n        } else {\n            let compiled = self.compilations.get(&source.source_id);",
                                            "        if source.source_id == 0 {\n            return ExpressionParser::parse(source.source.clone());\n        }\n        {\n            let compiled = self.compilations.get(&source.source_id);"))
B("c10-benign-trace-in-arm", (D, "(Data::Integer(i1), Data::Integer(i2)) => Data::Integer(i1.saturating_sub(*i2)),",
                                 "(Data::Integer(i1), Data::Integer(i2)) => {\n                info!(\"integer minus\");\n                Data::Integer(i1.saturating_sub(*i2))\n            }"))
B("c10-benign-reorder-ctor-fields", (X, "        ExpressionOperator {\n            left,\n            right,\n            operator: op,\n        }",
                                        "        ExpressionOperator {\n            operator: op,\n            right,\n            left,\n        }"))
