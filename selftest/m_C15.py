"""C15 mutants / benign refactors (SCXML I/O processor routing)."""
from mlib import new

ALL, M, B = new("C15")

S = "src/event_io_processor/scxml_event_io_processor.rs"
X = "src/executable_content.rs"
D = "src/datamodel/mod.rs"
E = "src/datamodel/expression_engine.rs"
F = "src/fsm.rs"

# ---- R15.1 dispatch table
M("c15-internal-goes-to-external-queue", "R15.1", (S, "                event.etype = EventType::internal;\n                global_lock.enqueue_internal(event);",
                                                      "                event.etype = EventType::internal;\n                global_lock.externalQueue.enqueue(Box::new(event));"))
M("c15-session-prefix-shadowed-by-invoke-prefix", "R15.1", (S, "if target.starts_with(SCXML_TARGET_SESSION_ID_PREFIX) {", "if target.starts_with(SCXML_TARGET_SESSION_ID_PREFIX) && target.len() > 64 {"))
M("c15-parent-target-sent-to-self", "R15.1", (S, "                Some(sid) => self.send_to_session(&mut global_lock, sid, event),",
                                                 "                Some(_) => {\n                    let sid = global_lock.session_id;\n                    self.send_to_session(&mut global_lock, sid, event)\n                }"))
M("c15-delivered-twice", "R15.1", (S, "                global_lock.externalQueue.enqueue(Box::new(event));\n                true",
                                      "                global_lock.externalQueue.enqueue(Box::new(event.clone()));\n                global_lock.externalQueue.enqueue(Box::new(event));\n                true"))
M("c15-internal-keeps-external-type", "R15.1", (S, "                event.etype = EventType::internal;\n", ""))
# ---- R15.2 stamping and flow
M("c15-origintype-short-name", "R15.2", (S, "event.origin_type = Some(SCXML_EVENT_PROCESSOR.to_string());", "event.origin_type = Some(SCXML_EVENT_PROCESSOR_SHORT_TYPE.to_string());"))
M("c15-origin-of-parent", "R15.2", (S, "event.origin = Some(self.get_location(global_lock.session_id).to_string());",
                                       "event.origin = Some(self.get_location(global_lock.parent_session_id.unwrap_or(0)).to_string());"))
M("c15-origin-stamped-only-for-remote", "R15.2", (S, "        if event.origin.is_none() {\n            event.origin =", "        if event.origin.is_none() && !target.is_empty() {\n            event.origin ="))
M("c15-event-named-after-target", "R15.2", (X, "            name: event_name.lock().unwrap().to_string(),\n            etype: EventType::external,",
                                               "            name: target.lock().unwrap().to_string(),\n            etype: EventType::external,"))
M("c15-sendid-dropped", "R15.2", (X, "            sendid: send_id.clone(),\n            origin: None,", "            sendid: None,\n            origin: None,"))
M("c15-content-not-sent", "R15.2", (X, "            },\n            content,\n        };", "            },\n            content: None,\n        };"))
M("c15-relay-to-own-session", "R15.2", (S, "executor.send_to_session(session_id, event.clone())", "executor.send_to_session(global_data_lock.session_id, event.clone())"))
M("c15-relay-renames-event", "R15.2", (D, "icg.send(self.global(), target.to_string().as_str(), event)", "icg.send(self.global(), target.to_string().as_str(), Event::new_simple(event.name.as_str()))"))
# ---- R15.3 reply addressing
M("c15-location-uses-invoke-prefix", "R15.3", (S, "            location: SCXML_TARGET_SESSION_ID_PREFIX.to_string(),", "            location: SCXML_TARGET_INVOKE_ID_PREFIX.to_string(),"))
M("c15-location-with-separator", "R15.3", (S, "format!(\"{}{}\", self.location, id)", "format!(\"{}:{}\", self.location, id)"))
M("c15-slice-by-other-prefix-length", "R15.3", (S, "match target.get(SCXML_TARGET_SESSION_ID_PREFIX.len()..) {", "match target.get(SCXML_TARGET_INVOKE_ID_PREFIX.len()..) {"))
M("c15-ioprocessors-publish-parent-location", "R15.3", (E, "    fn set_ioprocessors(&mut self) {\n        let session_id = self.global_s().lock().unwrap().session_id;",
                                                           "    fn set_ioprocessors(&mut self) {\n        let session_id = self.global_s().lock().unwrap().parent_session_id.unwrap_or(0);"))
# ---- R15.4 id counters
M("c15-session-id-load-then-store", "R15.4", (F, "let session_id: SessionId = SESSION_ID_COUNTER.fetch_add(1, Ordering::Relaxed);",
                                                 "let session_id: SessionId = SESSION_ID_COUNTER.load(Ordering::Relaxed);\n    SESSION_ID_COUNTER.store(session_id + 1, Ordering::Relaxed);"))
M("c15-platform-id-not-advanced", "R15.4", (X, "PLATFORM_ID_COUNTER.fetch_add(1, Ordering::Relaxed)", "PLATFORM_ID_COUNTER.fetch_add(0, Ordering::Relaxed)"))

# ---- benign refactors
B("c15-benign-rename-sid", (S, "                Some(sid) => self.send_to_session(&mut global_lock, sid, event),",
                               "                Some(parent_sid) => self.send_to_session(&mut global_lock, parent_sid, event),"))
B("c15-benign-hoist-slice", (S, "                    match target.get(SCXML_TARGET_SESSION_ID_PREFIX.len()..) {",
                                "                    let rest = target.get(SCXML_TARGET_SESSION_ID_PREFIX.len()..);\n                    match rest {"))
B("c15-benign-let-else-in-relay", (D, "        if let Some(ic) = ioc {\n            let mut icg = ic.lock().unwrap();\n            icg.send(self.global(), target.to_string().as_str(), event)\n        } else {\n            false\n        }",
                                      "        let Some(ic) = ioc else {\n            return false;\n        };\n        let mut icg = ic.lock().unwrap();\n        icg.send(self.global(), target.to_string().as_str(), event)"))
B("c15-benign-reorder-stamps", (S, "        event.origin_type = Some(SCXML_EVENT_PROCESSOR.to_string());\n        if event.origin.is_none() {\n            event.origin = Some(self.get_location(global_lock.session_id).to_string());\n        }",
                                   "        if event.origin.is_none() {\n            event.origin = Some(self.get_location(global_lock.session_id).to_string());\n        }\n        event.origin_type = Some(SCXML_EVENT_PROCESSOR.to_string());"))
B("c15-benign-trace-in-dispatch", (S, "            SCXML_TARGET_PARENT => match global_lock.parent_session_id {\n",
                                      "            SCXML_TARGET_PARENT => {\n                error!(\"routing to parent\");\n                match global_lock.parent_session_id {\n"),
  (S, "                    false\n                }\n            },\n            _ => {\n", "                    false\n                }\n            }}\n            _ => {\n"))
B("c15-benign-extract-own-location", (S, "            event.origin = Some(self.get_location(global_lock.session_id).to_string());",
                                         "            let own_id = global_lock.session_id;\n            event.origin = Some(self.get_location(own_id).to_string());"))
