from mlib import new
ALL, M, B = new("C11")

PAR = "src/expression_engine/parser.rs"
LEX = "src/expression_engine/lexer.rs"
EXP = "src/expression_engine/expressions.rs"
DM = "src/datamodel/mod.rs"
DE = "src/datamodel/expression_engine.rs"

# `match None` turned into unwrap()
M("c11-variable-unwrap", "R11.1", (EXP, "        match context.data.get(&self.name) {\n            Some(value) => Ok(value.clone()),\n            None => {\n                if allow_undefined {",
                                   "        if !allow_undefined {\n            return Ok(context.data.get(&self.name).unwrap());\n        }\n        match context.data.get(&self.name) {\n            Some(value) => Ok(value.clone()),\n            None => {\n                if allow_undefined {"))
# arity check dropped in a predefined action
M("c11-action-arity-dropped", "R11.1", (DE, "impl Action for LengthAction {\n    fn execute(&self, arguments: &[Data], _global: &GlobalData) -> Result<Data, String> {\n        if arguments.len() == 1 {",
                                        "impl Action for LengthAction {\n    fn execute(&self, arguments: &[Data], _global: &GlobalData) -> Result<Data, String> {\n        if arguments.len() <= 1 {"))
# guard of the folding step weakened: idx > 0 removed
M("c11-fold-guard-dropped", "R11.1", (PAR, "        if idx > 0 && (idx + 1) < stack.len() {", "        if (idx + 1) < stack.len() {"))
# integer division added without a zero test
# (the division is evaluated before, i.e. outside, the checked_rem guard of the '%' arm: a zero divisor panics)
M("c11-integer-division", "R11.1", (DM, "            (Data::Integer(i1), Data::Integer(i2)) => match i1.checked_rem(*i2) {", "            (Data::Integer(i1), Data::Integer(i2)) => match ((i1 / i2) * 0 + i1).checked_rem(*i2) {"))
# any separator (e.g. ',') pushed as stack token, not only '.'
M("c11-any-separator-as-stoken", "R11.2", (PAR, "                    } else if *sep == '.' {\n                        stack.push(ExpressionParserItem::SToken(Token::Separator('.')));",
                                           "                    } else {\n                        stack.push(ExpressionParserItem::SToken(Token::Separator(*sep)));"))
# the ptr_eq guard of the operator removed
M("c11-ptr-eq-dropped", "R11.3", (EXP, "        let result_data = if Arc::ptr_eq(&left_result.arc, &right_result.arc) {", "        let result_data = if left_result.is_readonly() && right_result.is_readonly() {"))
# un-read without the end-of-input test in read_number
M("c11-unread-at-eof", "R11.4", (LEX, "            } else {\n                if c != '\\0' {\n                    self.push_back();\n                }\n                break;\n            }",
                                 "            } else {\n                self.push_back();\n                break;\n            }"))
# a new recursion: member access evaluates itself again on a miss
M("c11-new-recursion", "R11.4", (DM, "pub fn operation_modulus(left: &Data, right: &Data) -> Data {", "pub fn operation_modulus(left: &Data, right: &Data) -> Data {\n    if let (Data::Array(a), Data::Array(_)) = (left, right) {\n        if let Some(f) = a.first() {\n            return operation_modulus(&f.lock().unwrap(), right);\n        }\n    }"))

B("c11-benign-rename", (PAR, "            let right = stack.remove(idx + 1);\n            stack.remove(idx);\n            let left = stack.remove(idx - 1);",
                        "            let rhs_item = stack.remove(idx + 1);\n            stack.remove(idx);\n            let left = stack.remove(idx - 1);\n            let right = rhs_item;"))
B("c11-benign-extra-guard", (LEX, "    pub fn push_back(&mut self) {\n        if self.pos > 0 {", "    pub fn push_back(&mut self) {\n        if self.pos > 0 && !self.text.is_empty() {"))
B("c11-benign-trace", (EXP, "        if self.left.is_assignable() {\n            let right_result = self.right.execute(context, false);", "        if self.left.is_assignable() {\n            debug!(\"assign\");\n            let right_result = self.right.execute(context, false);"))
